"""Structural walk of a returned tree (C04): positions, list fields, contexts."""
from __future__ import annotations

import ast
import io

_LIST_FIELDS = {}


def _list_fields(cls):
    """fields that CPython's own parser always fills with a list for this node class"""
    if cls in _LIST_FIELDS:
        return _LIST_FIELDS[cls]
    doc = cls.__doc__ or ""
    res = set()
    # the class docstring is the ASDL signature, e.g. "Tuple(expr* elts, expr_context ctx)"
    inside = doc[doc.find("(") + 1 : doc.rfind(")")] if "(" in doc else ""
    for part in inside.split(","):
        part = part.strip()
        if not part:
            continue
        typ, _, name = part.rpartition(" ")
        if typ.endswith("*"):
            res.add(name)
    _LIST_FIELDS[cls] = res
    return res


def _required_fields(cls):
    doc = cls.__doc__ or ""
    res = set()
    inside = doc[doc.find("(") + 1 : doc.rfind(")")] if "(" in doc else ""
    for part in inside.split(","):
        part = part.strip()
        if not part:
            continue
        typ, _, name = part.rpartition(" ")
        if not typ.endswith("*") and not typ.endswith("?"):
            res.add(name)
    return res


def structural_defects(tree, src, limit=6):
    lines = io.StringIO(src, newline=None).readlines()  # universal newlines, as the parser entry points read a source
    n = len(lines)
    out = []

    def bad(kind, node, detail=""):
        if len(out) < limit:
            out.append((kind, type(node).__name__, getattr(node, "lineno", None), getattr(node, "col_offset", None), detail))

    def inside(l, c):
        if not isinstance(l, int) or not isinstance(c, int) or isinstance(l, bool) or isinstance(c, bool):
            return False
        if l < 1 or c < 0:
            return False
        if l > n:
            # position on the (virtual) line after the last one is only legitimate at column 0
            return l == n + 1 and c == 0
        return c <= len(lines[l - 1].encode("utf-8", "surrogatepass"))  # columns count UTF-8 bytes, as in CPython's trees

    todo = [(tree, "Load")]
    while todo:
        node, want = todo.pop()
        cls = type(node)
        if "lineno" in cls._attributes:
            vals = [getattr(node, a, None) for a in ("lineno", "col_offset", "end_lineno", "end_col_offset")]
            if any(v is None for v in vals):
                bad("incomplete-span", node, str(vals))
            elif not inside(vals[0], vals[1]) or not inside(vals[2], vals[3]):
                bad("span-outside-source", node, str(vals))
            elif (vals[0], vals[1]) > (vals[2], vals[3]):
                bad("span-start-after-end", node, str(vals))
        if isinstance(node, ast.expr) and hasattr(node, "ctx") or isinstance(node, (ast.Name, ast.Attribute, ast.Subscript, ast.Starred, ast.List, ast.Tuple)):
            ctx = getattr(node, "ctx", None)
            if type(ctx).__name__ != want:
                bad("wrong-context", node, f"expected {want}, got {type(ctx).__name__}")
        lf = _list_fields(cls)
        rf = _required_fields(cls)
        for f in cls._fields:
            try:
                v = getattr(node, f)
            except AttributeError:
                if f in rf or f in lf:
                    bad("field-missing", node, f)
                continue
            if f in lf:
                if not isinstance(v, list):
                    bad("list-field-not-a-list", node, f"{f}={v!r:.40}")
                    continue
            elif f in rf and v is None and not (cls in (ast.Constant, ast.MatchSingleton) and f == "value"):
                bad("required-field-None", node, f)
            child_want = "Load"
            # binding positions
            if (cls in (ast.Assign,) and f == "targets") or (cls in (ast.AugAssign, ast.AnnAssign, ast.For, ast.AsyncFor, ast.comprehension, ast.NamedExpr) and f == "target") or (cls is ast.withitem and f == "optional_vars"):
                child_want = "Store"
            elif cls is ast.TypeAlias and f == "name":
                child_want = "Store"
            elif cls is ast.Delete and f == "targets":
                child_want = "Del"
            elif cls in (ast.Tuple, ast.List) and f == "elts" and want in ("Store", "Del"):
                child_want = want
            elif cls is ast.Starred and f == "value" and want in ("Store",):
                child_want = want
            if isinstance(v, list):
                for x in v:
                    if isinstance(x, ast.AST):
                        todo.append((x, child_want))
            elif isinstance(v, ast.AST):
                todo.append((v, child_want))
    return out
