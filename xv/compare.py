"""Exact tree comparator: reports every difference as (path, kind, expected, observed)."""
from __future__ import annotations

import ast

MAX_DIFFS = 40


def _scalar_eq(a, b):
    if type(a) is not type(b):
        return False
    if isinstance(a, (float, complex)):
        return repr(a) == repr(b)
    return a == b


def diff_trees(exp, obs, positions=True, limit=MAX_DIFFS):
    """exp: oracle tree, obs: tree under test. Iterative (no recursion limit issues)."""
    diffs = []
    stack = [("", exp, obs)]
    while stack and len(diffs) < limit:
        path, a, b = stack.pop()
        if isinstance(a, ast.AST):
            if not isinstance(b, ast.AST) or type(a) is not type(b):
                diffs.append((path, "type", type(a).__name__, type(b).__name__ if isinstance(b, ast.AST) else repr(b)[:80]))
                continue
            if isinstance(a, (ast.expr_context, ast.operator, ast.boolop, ast.unaryop, ast.cmpop)):
                continue
            for f in a._fields:
                try:
                    va = getattr(a, f)
                except AttributeError:
                    va = "<unset>"
                try:
                    vb = getattr(b, f)
                except AttributeError:
                    vb = "<unset>"
                stack.append((f"{path}.{f}", va, vb))
            if positions:
                for f in a._attributes:
                    va = getattr(a, f, "<unset>")
                    vb = getattr(b, f, "<unset>")
                    if not _scalar_eq(va, vb):
                        diffs.append((f"{path}.{f}", "pos", va, vb))
        elif isinstance(a, list):
            if not isinstance(b, list):
                diffs.append((path, "notlist", f"list[{len(a)}]", repr(b)[:80]))
                continue
            if len(a) != len(b):
                diffs.append((path, "len", len(a), len(b)))
                continue
            for i, (x, y) in enumerate(zip(a, b)):
                stack.append((f"{path}[{i}]", x, y))
        else:
            if isinstance(b, (ast.AST, list)) or not _scalar_eq(a, b):
                diffs.append((path, "value", repr(a)[:80], (type(b).__name__ if isinstance(b, ast.AST) else repr(b)[:80])))
    return diffs


def bytecols_to_charcols(tree, src):
    """In place: convert CPython's UTF-8 byte columns to character columns (the documented
    normaliser of finding F01e). Returns number of attributes changed."""
    lines = src.splitlines(keepends=True)
    # CPython splits lines on \n, \r\n and \r; str.splitlines also splits on \f, \v etc.
    lines = _cpython_lines(src)
    enc = {}
    changed = 0

    def conv(lineno, col):
        if lineno is None or col is None or lineno < 1 or lineno > len(lines):
            return col
        bl = enc.get(lineno)
        if bl is None:
            bl = enc[lineno] = lines[lineno - 1].encode("utf-8")
        if len(bl) == len(lines[lineno - 1]):
            return col
        return len(bl[:col].decode("utf-8", "ignore"))

    for node in ast.walk(tree):
        if "col_offset" in node._attributes and hasattr(node, "col_offset"):
            c = conv(node.lineno, node.col_offset)
            if c != node.col_offset:
                node.col_offset = c
                changed += 1
            ec = getattr(node, "end_col_offset", None)
            if ec is not None:
                c = conv(node.end_lineno, ec)
                if c != ec:
                    node.end_col_offset = c
                    changed += 1
    return changed


def _cpython_lines(src):
    out = []
    i = 0
    n = len(src)
    start = 0
    while i < n:
        c = src[i]
        if c == "\n":
            out.append(src[start : i + 1])
            start = i + 1
        elif c == "\r":
            if i + 1 < n and src[i + 1] == "\n":
                i += 1
            out.append(src[start : i + 1])
            start = i + 1
        i += 1
    if start < n:
        out.append(src[start:])
    return out
