"""Shared plumbing: locating the repository under test, guarded execution, outcome signatures."""
from __future__ import annotations

import ast
import hashlib
import os
import signal
import sys
import warnings

VERIF = os.path.dirname(os.path.dirname(os.path.abspath(__file__)))
REPO = os.path.abspath(os.environ.get("VERIF_REPO", "/repo"))
PY = os.environ.get("VERIF_PYTHON", "/venv/bin/python")
JOBS = int(os.environ.get("VERIF_JOBS", "0")) or min(16, os.cpu_count() or 4)


def seed_from_env() -> int:
    try:
        return int(os.environ.get("VERIF_SEED", "0"))
    except ValueError:
        return 0


_loaded = {}


def load_repo():
    """Import the working tree's packages (never an installed copy) and return the parser class."""
    if "cls" in _loaded:
        return _loaded["cls"]
    if sys.path[0] != REPO:
        sys.path.insert(0, REPO)
    for name in [m for m in sys.modules if m.split(".")[0] in ("peg_parser", "pegen", "tasks")]:
        del sys.modules[name]
    import peg_parser.parser as pp

    here = os.path.abspath(pp.__file__)
    if not here.startswith(REPO + os.sep):
        raise RuntimeError(f"peg_parser imported from {here}, expected under {REPO}")
    alt = os.environ.get("VERIF_PARSER_FILE")
    if alt:
        import importlib.util

        spec = importlib.util.spec_from_file_location("peg_parser._verif_regen", alt)
        mod = importlib.util.module_from_spec(spec)
        spec.loader.exec_module(mod)
        _loaded["cls"] = mod.XonshParser
    else:
        _loaded["cls"] = pp.XonshParser
    warnings.simplefilter("ignore")
    return _loaded["cls"]


def stable_dump(node, positions=True):
    """ast.dump that stays deterministic when a malformed tree holds non-AST containers (e.g. the raw (atom, token) tuple of finding
    F03e, whose default repr contains object addresses)"""
    if isinstance(node, ast.AST):
        parts = [f"{f}={stable_dump(getattr(node, f, None), positions)}" for f in node._fields]
        if positions:
            parts += [f"{a}={getattr(node, a, None)!r}" for a in node._attributes]
        return f"{type(node).__name__}({', '.join(parts)})"
    if isinstance(node, (list, tuple)):
        inner = ", ".join(stable_dump(x, positions) for x in node)
        return ("[" + inner + "]") if isinstance(node, list) else ("(" + inner + ",)")
    return repr(node)


def _stack_depth():
    f = sys._getframe()
    n = 0
    while f is not None:
        n += 1
        f = f.f_back
    return n


def at_depth(fn, target=160):
    """call fn() with exactly `target` Python frames below it, whatever the caller's own depth (main thread, worker thread, forked child):
    near the recursion limit the outcome of a parse legitimately depends on the stack that is left, so comparisons of the same input must
    start from the same depth"""
    def rec():
        return fn() if _stack_depth() >= target else rec()

    return rec()


class CaseTimeout(BaseException):
    """wall-clock watchdog of one call: inconclusive, never a violation"""


class BudgetExhausted(BaseException):
    """logical-step budget of one call exhausted"""


def _on_alarm(signum, frame):
    raise CaseTimeout()


def install_alarm():
    signal.signal(signal.SIGALRM, _on_alarm)


CASE_TIMEOUT = float(os.environ.get("VERIF_CASE_TIMEOUT", "30"))


class Outcome:
    """result of one guarded call of the code under test"""

    __slots__ = ("kind", "value", "exc")

    def __init__(self, kind, value=None, exc=None):
        self.kind = kind  # tree | syntax | token | other | timeout | budget | none
        self.value = value
        self.exc = exc

    @property
    def accepted(self):
        return self.kind == "tree"

    @property
    def rejected(self):
        return self.kind in ("syntax", "token")

    def cls(self):
        if self.kind in ("syntax", "token", "other"):
            return type(self.exc).__name__
        return self.kind

    def sig(self, positions=True):
        """comparable signature of the outcome"""
        if self.kind == "tree":
            return ("tree", stable_dump(self.value, positions))
        if self.kind == "syntax":
            e = self.exc
            return (
                "syntax",
                type(e).__name__,
                e.msg,
                e.lineno,
                e.offset,
                getattr(e, "end_lineno", None),
                getattr(e, "end_offset", None),
                e.text,
            )
        if self.kind in ("token", "other"):
            return (self.kind, type(self.exc).__name__, str(self.exc)[:200])
        return (self.kind,)

    def brief(self):
        if self.kind == "tree":
            return "tree"
        if self.exc is not None:
            return f"{type(self.exc).__name__}: {str(self.exc)[:160]}"
        return self.kind


def guarded(fn, *args, timeout=None, **kw) -> Outcome:
    """Run fn under the wall-clock watchdog and classify what happened. Nothing raised by the
    code under test escapes."""
    from peg_parser.tokenize import TokenError

    signal.setitimer(signal.ITIMER_REAL, timeout or CASE_TIMEOUT)
    try:
        try:
            res = fn(*args, **kw)
        finally:
            signal.setitimer(signal.ITIMER_REAL, 0)
    except CaseTimeout:
        return Outcome("timeout")
    except BudgetExhausted:
        return Outcome("budget")
    except SyntaxError as e:
        return Outcome("syntax", exc=e)
    except TokenError as e:
        return Outcome("token", exc=e)
    except (KeyboardInterrupt, SystemExit):
        raise
    except BaseException as e:  # noqa: BLE001
        return Outcome("other", exc=e)
    if res is None:
        return Outcome("none")
    return Outcome("tree", value=res)


def parse(src: str, mode: str = "exec", **opts) -> Outcome:
    cls = load_repo()
    return guarded(cls.parse_string, src, mode=mode, **opts)


def cpython(src: str, mode: str = "exec"):
    """CPython's verdict: ('tree', t) | ('syntax', e) | ('unavailable', e)"""
    try:
        with warnings.catch_warnings():
            warnings.simplefilter("ignore")
            return ("tree", ast.parse(src, mode=mode))
    except SyntaxError as e:
        return ("syntax", e)
    except (ValueError, MemoryError, RecursionError, OverflowError) as e:
        return ("unavailable", e)


def h64(*parts) -> str:
    m = hashlib.blake2b(digest_size=8)
    for p in parts:
        m.update(repr(p).encode("utf-8", "surrogatepass"))
        m.update(b"\0")
    return m.hexdigest()
