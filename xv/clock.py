"""Logical clock: counts PY_START / PY_RESUME / backward JUMP events inside the repository's code objects
(sys.monitoring local events), so that 'terminates' and 'work' are decided on a deterministic step count."""
from __future__ import annotations

import sys
import types

from .base import BudgetExhausted

mon = sys.monitoring
TOOL = 3
E = mon.events

_state = {"n": 0, "budget": None, "on": False}
_instrumented = set()


def _code_objects(mod):
    seen = set()
    todo = []
    for v in list(vars(mod).values()):
        if isinstance(v, types.FunctionType) and v.__module__ == mod.__name__:
            todo.append(v.__code__)
        elif isinstance(v, type) and v.__module__ == mod.__name__:
            for w in vars(v).values():
                f = getattr(w, "__func__", w)
                f = getattr(f, "__wrapped__", f)
                if isinstance(f, types.FunctionType):
                    todo.append(f.__code__)
                if isinstance(w, types.FunctionType):
                    todo.append(w.__code__)
                    for cell in w.__closure__ or ():
                        try:
                            c = cell.cell_contents
                        except ValueError:
                            continue
                        if isinstance(c, types.FunctionType):
                            todo.append(c.__code__)
    while todo:
        c = todo.pop()
        if c in seen:
            continue
        seen.add(c)
        for k in c.co_consts:
            if isinstance(k, types.CodeType):
                todo.append(k)
    return seen


def _tick(*_):
    s = _state
    s["n"] += 1
    if s["budget"] is not None and s["n"] > s["budget"]:
        s["budget"] = None
        raise BudgetExhausted()


def _jump(code, src, dst):
    if dst < src:
        _tick()


def install(modules):
    """instrument every code object defined in the given modules (idempotent)"""
    if not _state["on"]:
        mon.use_tool_id(TOOL, "xv-clock")
        mon.register_callback(TOOL, E.PY_START, _tick)
        mon.register_callback(TOOL, E.PY_RESUME, _tick)
        mon.register_callback(TOOL, E.JUMP, _jump)
        _state["on"] = True
    n = 0
    for m in modules:
        for c in _code_objects(m):
            if c not in _instrumented:
                mon.set_local_events(TOOL, c, E.PY_START | E.PY_RESUME | E.JUMP)
                _instrumented.add(c)
                n += 1
    return n


def start(budget=None):
    _state["n"] = 0
    _state["budget"] = budget


def stop():
    _state["budget"] = None
    return _state["n"]


def instrumented():
    return len(_instrumented)
