"""Generators of pure-Python workloads: AST recombination, layout mutation, literal spellings, seeds."""
from __future__ import annotations

import ast
import copy
import io
import itertools
import random
import tokenize
import warnings

XONSH_CHARS = set("$?!`")


def py_tokens(src):
    """CPython's tokens, or None if it rejects the text"""
    try:
        with warnings.catch_warnings():
            warnings.simplefilter("ignore")
            return list(tokenize.generate_tokens(io.StringIO(src).readline))
    except (tokenize.TokenError, SyntaxError, IndentationError, ValueError, SystemError, MemoryError, RecursionError):
        # SystemError: CPython 3.12.1's C tokenizer fails with "Negative size passed to PyUnicode_New" on some f-strings
        return None


def in_c01_domain(src, toks=None):
    """pure-Python text without xonsh-only lexemes, f-strings, '@(' digraph, BOM/NUL; nesting <= 50"""
    if "\0" in src or "\ufeff" in src:
        return False
    toks = toks if toks is not None else py_tokens(src)
    if toks is None:
        return False
    depth = 0
    prev = None
    for t in toks:
        if t.type == tokenize.FSTRING_START:
            return False
        if t.type == tokenize.OP:
            if t.string in "([{":
                depth += 1
                if depth > 50:
                    return False
                if t.string == "(" and prev is not None and prev.type == tokenize.OP and prev.string == "@" and prev.end == t.start:
                    return False
            elif t.string in ")]}":
                depth -= 1
        elif t.type == tokenize.ERRORTOKEN:
            return False
        prev = t
    return True


def nesting_depth(src, toks=None):
    toks = toks if toks is not None else py_tokens(src)
    if toks is None:
        return 0
    depth = best = 0
    for t in toks:
        if t.type == tokenize.OP:
            if t.string in "([{":
                depth += 1
                best = max(best, depth)
            elif t.string in ")]}":
                depth -= 1
        elif t.type == tokenize.INDENT:
            depth += 1
            best = max(best, depth)
        elif t.type == tokenize.DEDENT:
            depth -= 1
    return best


# ----------------------------------------------------------------------------------------------
# AST recombination


class ExprPool:
    def __init__(self):
        self.exprs = []
        self.stmts = []

    def add_tree(self, tree, rnd, keep=0.15):
        for node in tree.body:
            self.stmts.append(node)
            for sub in ast.walk(node):
                if isinstance(sub, ast.expr) and isinstance(getattr(sub, "ctx", None), (ast.Load, type(None))):
                    if isinstance(sub, (ast.JoinedStr, ast.FormattedValue, ast.Starred)):
                        continue
                    if rnd.random() < keep:
                        self.exprs.append(sub)


def _has_fstring(node):
    return any(isinstance(n, ast.JoinedStr) for n in ast.walk(node))


class _Replacer(ast.NodeTransformer):
    def __init__(self, rnd, pool, p):
        self.rnd, self.pool, self.p = rnd, pool, p
        self.done = 0

    def visit(self, node):
        if (
            isinstance(node, ast.expr)
            and isinstance(getattr(node, "ctx", ast.Load()), ast.Load)
            and not isinstance(node, (ast.Starred, ast.FormattedValue, ast.JoinedStr))
            and self.rnd.random() < self.p
            and self.done < 3
        ):
            self.done += 1
            return copy.deepcopy(self.rnd.choice(self.pool.exprs))
        return self.generic_visit(node)


def recombine(rnd, pool, tries=6):
    """a new program: a corpus statement with 1-3 Load expressions replaced by foreign subtrees"""
    for _ in range(tries):
        stmt = copy.deepcopy(rnd.choice(pool.stmts))
        n = sum(1 for _ in ast.walk(stmt))
        if n > 400:
            continue
        rep = _Replacer(rnd, pool, p=min(0.5, 3.0 / max(n, 1)))
        try:
            new = rep.visit(stmt)
            if not rep.done:
                continue
            src = ast.unparse(ast.fix_missing_locations(ast.Module(body=[new], type_ignores=[]))) + "\n"
        except (RecursionError, ValueError, AttributeError, TypeError):
            continue
        if "f'" in src or 'f"' in src:
            try:
                if _has_fstring(ast.parse(src)):
                    continue
            except (SyntaxError, ValueError, RecursionError, MemoryError):
                continue
        return src
    return None


# ----------------------------------------------------------------------------------------------
# layout mutation (token preserving)


def _line_offsets(src):
    offs = [0]
    for line in io.StringIO(src).readlines():
        offs.append(offs[-1] + len(line))
    return offs


def backslash_line_mutant(rnd, src):
    """a physical line that holds only (blanks and) a backslash continuation, put in front of a statement line - optionally with a blank or
    comment-only line after it. CPython continues measuring the indentation on the next line; whether the result is valid is left to it"""
    lines = src.split("\n")
    cands = [i for i, l in enumerate(lines) if l.strip() and not l.lstrip().startswith("#")]
    if not cands:
        return src
    i = rnd.choice(cands)
    ind = lines[i][: len(lines[i]) - len(lines[i].lstrip(" \t"))]
    pre = rnd.choice(["", "", ind, ind + "  ", " ", "\t"]) + "\\"
    extra = rnd.choice([[], [], [""], ["# c"], [ind + "# c"], ["", ""], [pre]])
    return "\n".join(lines[:i] + [pre] + extra + lines[i:])


def layout_mutant(rnd, src, toks=None, nedits=None):
    """insert whitespace / newlines / comments / continuations between tokens; None if nothing applicable"""
    toks = toks if toks is not None else py_tokens(src)
    if not toks:
        return None
    offs = _line_offsets(src)

    def absolute(pos):
        return offs[pos[0] - 1] + pos[1]

    points = []  # (offset, depth, line_start)
    depth = 0
    real = [t for t in toks if t.type not in (tokenize.COMMENT, tokenize.NL, tokenize.ENDMARKER, tokenize.INDENT, tokenize.DEDENT)]
    for a, b in zip(real, real[1:]):
        if a.type == tokenize.OP:
            if a.string in "([{":
                depth += 1
            elif a.string in ")]}":
                depth -= 1
        if a.type == tokenize.NEWLINE or b.type == tokenize.NEWLINE:
            continue
        if a.end[0] != b.start[0]:
            continue  # already on different lines; leave alone
        points.append((absolute(a.end), absolute(b.start), depth, a, b))
    edits = []
    k = nedits or rnd.randint(1, 4)
    for _ in range(k):
        choice = rnd.random()
        if choice < 0.12:
            edits.append(("crlf",))
        elif choice < 0.2:
            edits.append(("nofinal",))
        elif choice < 0.28:
            edits.append(("blanklines",))
        elif choice < 0.34:
            edits.append(("tabs",))
        elif points:
            p = rnd.choice(points)
            lo, hi, d, a, b = p
            if d > 0 and rnd.random() < 0.6:
                ins = rnd.choice(["\n", "\n    ", "\n\t", " # c\n  ", "\n\n", "  #\n", "\n# x\n"])
            elif d == 0 and rnd.random() < 0.35:
                ins = rnd.choice(["\\\n", " \\\n  ", "\\\n\t", " \\\n"])
            else:
                ins = rnd.choice([" ", "  ", "\t", " \t ", "\f", " \f"])
                if lo == hi and (a.type in (tokenize.NAME, tokenize.NUMBER, tokenize.STRING) or b.type in (tokenize.NAME, tokenize.NUMBER, tokenize.STRING)) and False:
                    pass
            edits.append(("ins", lo, ins))
    if not edits:
        return None
    out = src
    for e in sorted((e for e in edits if e[0] == "ins"), key=lambda e: -e[1]):
        out = out[: e[1]] + e[2] + out[e[1] :]
    kinds = {e[0] for e in edits}
    if "blanklines" in kinds:
        lines = out.splitlines(keepends=True)
        # only before physical lines that start a logical line at depth 0: approximate by retokenizing
        t2 = py_tokens(out)
        if t2:
            starts = set()
            prev = None
            for t in t2:
                if prev is None or prev.type in (tokenize.NEWLINE, tokenize.INDENT, tokenize.DEDENT) or (prev.type == tokenize.NL and prev.line.strip() in ("",) ):
                    if t.type not in (tokenize.INDENT, tokenize.DEDENT, tokenize.NL, tokenize.COMMENT, tokenize.ENDMARKER, tokenize.NEWLINE):
                        if prev is None or prev.type != tokenize.NL:
                            starts.add(t.start[0])
                prev = t
            if starts:
                ln = rnd.choice(sorted(starts))
                lines2 = _line_list(out)
                extra = rnd.choice(["\n", "   \n", "# comment\n", "      # deep comment\n", "\t\n", "\f\n", "\n\n#x\n"])
                lines2.insert(ln - 1, extra)
                out = "".join(lines2)
    if "tabs" in kinds:
        lines2 = _line_list(out)
        new = []
        ok = True
        for l in lines2:
            stripped = l.lstrip(" ")
            n = len(l) - len(stripped)
            if n % 4 == 0 and n:
                new.append("\t" * (n // 4) + stripped)
            else:
                new.append(l)
        out = "".join(new)
    if "nofinal" in kinds:
        if out.endswith("\r\n"):
            out = out[:-2]
        elif out.endswith("\n"):
            out = out[:-1]
    if "crlf" in kinds:
        out = out.replace("\r\n", "\n").replace("\n", "\r\n")
    return out if out != src else None


def _line_list(src):
    return io.StringIO(src, newline="").readlines() if "\r" in src else src.splitlines(keepends=True)


# ----------------------------------------------------------------------------------------------
# literal spellings

NUMBERS = [
    "0", "1", "7", "10", "00", "0_0", "1_000", "1_0_0", "123456789012345678901234567890", "0x1f", "0XFF", "0x_f", "0xdead_beef",
    "0o17", "0O7", "0o_1", "0b101", "0B1", "0b_1_0", "1.", "1.0", ".5", "0.5", "1_0.0_1", "1e5", "1E5", "1e+5", "1e-5", "1_0e1_0",
    "1.e5", ".5e-3", "1.5E+10", "0e0", "1j", "1J", "0j", "1.j", "1.0j", ".5j", "1e5j", "1_0j", "1.5e-3J", "00.5", "09.5", "0_9.5e1", "1e0_1",
    "0xabcdef", "0XABCDEF", "1_2_3", "9" * 40, "0." + "0" * 30 + "1", "1e308", "1e309", "1e-400", "0.1e1j",
]



def _number_product():
    """systematic numeric spellings (integer part x fraction x exponent x imaginary suffix), kept iff CPython accepts them"""
    import warnings

    ints = ["", "0", "1", "7", "00", "01", "09", "007", "0_0", "0_1", "1_0", "00_7", "10", "123", "0_9"]
    fracs = ["", ".", ".0", ".5", ".0_1", ".00"]
    exps = ["", "e1", "E+1", "e-0_1", "e01"]
    imags = ["", "j", "J"]
    out = []
    for i in ints:
        for f in fracs:
            for e in exps:
                for j in imags:
                    lit = i + f + e + j
                    if not lit or lit in (".",) or not lit[0] in "0123456789.":
                        continue
                    try:
                        with warnings.catch_warnings():
                            warnings.simplefilter("ignore")
                            if isinstance(ast.literal_eval(lit), (int, float, complex)):
                                out.append(lit)
                    except (SyntaxError, ValueError):
                        pass
    return out


NUMBERS_PRODUCT = _number_product()
NUMBERS = list(dict.fromkeys(NUMBERS + NUMBERS_PRODUCT))

STR_PREFIXES = ["", "r", "R", "b", "B", "u", "U", "br", "bR", "Br", "BR", "rb", "rB", "Rb", "RB"]
QUOTES = ["'", '"', "'''", '"""']
STR_BODIES = [
    "", "a", "abc def", r"\n", r"\t\\", r"\x41", r"\101", r"\0", r"\'", r'\"', "\\\n", "it's" , 'say "hi"', "{}", "{x}", "$HOME", "a#b", "%s",
    "é", "日本", r"\d+", r"\N{BULLET}", r"\u00e9", r"\U0001F600", "`x`", "@(a)", "a\\\\", "'", '"', "p", "f", "?", "!",
]


def string_literals():
    for pre, q, body in itertools.product(STR_PREFIXES, QUOTES, STR_BODIES):
        if "b" in pre.lower() and not body.isascii():
            continue
        if len(q) == 1 and (q in body.replace("\\" + q, "")):
            continue
        if len(q) == 3 and (body.endswith(q[0]) or q in body):
            continue
        if len(q) == 1 and "\n" in body and not body.endswith("\\\n") :
            continue
        yield pre + q + body + q


CONTEXTS = [
    "x = {}\n", "f({}, k={})\n", "a[{}]\n", "r = {} if {} else {}\n", "y = -{}\n", "z = ({},)\n", "w = [{}, {}]\n", "d = {{{}: {}}}\n",
    "assert {}, {}\n", "v = {} + {}\n", "def f(a={}): return {}\n", "for i in {}: pass\n", "q = {} .real\n", "lambda: {}\n", "t = {} is not None\n",
    "u = {}; v = {}\n", "k = ({}\n     )\n", "if {}:\n    x = {}\n",
]


def literal_cases(rnd, n):
    strs = list(string_literals())
    out = []
    for _ in range(n):
        ctx = rnd.choice(CONTEXTS)
        holes = ctx.count("{}")
        lits = []
        for _ in range(holes):
            r = rnd.random()
            if r < 0.45:
                lits.append(rnd.choice(NUMBERS))
            elif r < 0.9:
                lits.append(rnd.choice(strs))
            else:
                # implicit concatenation, possibly across lines inside parentheses
                a, b = rnd.choice(strs), rnd.choice(strs)
                lits.append("(" + a + rnd.choice([" ", "", "\n  ", "  # c\n "]) + b + ")")
        out.append(ctx.format(*lits))
    return out


SEEDS = [
    "() = x\n", "[] = x\n", "del ()\n", "del []\n", "del (a), [b], (c, d)\n", "def f(*args: *Ts): pass\n", "x = u'a'\n", "x = u'a' 'b'\n", "x = 'a' u'b'\n",
    "x = ('a'\n     'b'\n     'c')\n", "def f(a, /, b, *, c): pass\n", "def f(a=1, /, b=2, *c, d, e=3, **k): pass\n", "def f(a, b=1, /): pass\n",
    "def f(*, a=1, b, c=2): pass\n", "lambda a, /, b=1, *c, d=2, **e: 0\n", "lambda *, a: a\n", "lambda: (yield)\n",
    "@a.b.c\n@d(1)\n@e[0]\ndef f(): pass\n", "@(yield)\nclass A: pass\n" if False else "@x\nclass A(B, metaclass=M, **kw): pass\n",
    "match x:\n    case [1, *_]: pass\n    case {'a': 1, **r}: pass\n    case A(b=1) | B(): pass\n    case _: pass\n",
    "match x:\n    case -1 | 1j | -1.5 + 2j | 'a' 'b' | None | True: pass\n    case [a, b, *c] if c: pass\n    case (a, b) as d: pass\n    case a.b: pass\n",
    "match (a, b):\n    case (1, 2): pass\n", "match a, b:\n    case _: pass\n", "match = 1\ncase = 2\ntype = 3\nprint(match, case, type)\n", "match(x)\n", "match[x]\n",
    "type X = int\n", "type X[T] = list[T]\n", "type X[T: int, *Ts, **P] = Callable[P, T]\n", "def f[T](x: T) -> T: pass\n", "class A[T: (int, str)]: pass\n",
    "try:\n    pass\nexcept* ValueError as e:\n    pass\nexcept* (A, B):\n    pass\nelse:\n    pass\nfinally:\n    pass\n",
    "try:\n    pass\nexcept A:\n    pass\nexcept:\n    pass\n", "if (n := len(a)) > 1: pass\n", "[y := f(x), y**2]\n", "a < b <= c != d is e is not f in g not in h\n",
    "not not -+~x\n", "- - - x ** - y\n", "await x\n" if False else "async def f():\n    await x\n    async for a in b: pass\n    async with c as d, e: pass\n    return [x async for x in y]\n",
    "x = a if b else c if d else e\n", "f = lambda: a if b else c\n", "a[1:2, ::3, ...]\n", "a[:, 1]\n", "a[b:c:d]\n", "a[*b]\n", "a[*b, c]\n", "a[1:2,]\n",
    "def f():\n    return *a, b\n", "def f():\n    yield *a, b\n    yield\n    x = yield y\n    yield from z\n", "for x in *a, b: pass\n", "for x, in y: pass\n",
    "def f():\n    global a, b\n    def g():\n        nonlocal c\n", "from . import a\n", "from .. import a as b\n", "from ... import a\n", "from .... import a\n", "from .a.b import (c as d, e,)\n",
    "from a import *\n", "import a.b.c as d, e\n", "x: int\n", "x: int = 1\n", "(x): int = 1\n", "a.b: int\n", "a[0]: int = 2\n", "x: *Ts = 1\n" if False else "x: tuple[*Ts]\n",
    "a = b = c = d\n", "a, b = c\n", "a, *b = c\n", "*a, = c\n", "[a, [b, *c]] = d\n", "(a) = 1\n", "a.b = c[d] = e\n", "a += 1\n", "a.b <<= 2\n", "a[0] //= 3\n", "a @= b\n", "a **= b\n", "a >>= b\n", "a ^= b\n", "a |= b\n", "a &= b\n", "a %= b\n",
    "with a as b, c as (d, e), f: pass\n", "with (a as b, c): pass\n", "with (a): pass\n", "with (a, b): pass\n", "with (a, b) as c: pass\n", "with (yield): pass\n" if False else "with a as b.c, d as e[0]: pass\n",
    "while a:\n    break\nelse:\n    pass\n", "for a in b:\n    continue\nelse:\n    pass\n", "raise\n", "raise A from B\n", "assert a\n", "pass; pass\n",
    "x = {**a, 'b': 1, **c}\n", "x = {*a, b}\n", "x = [*a, *b]\n", "f(*a, *b, c=1, **d, e=2)\n", "f(a for a in b)\n", "f(a, *b, c)\n", "f(x := 1)\n", "f(a)(b)[c].d\n",
    "x = [a for b in c if d if e for f in g]\n", "x = {a: b for c in d}\n", "x = {a for b in c}\n", "x = (a for b, c in d)\n", "x = [a async for b in c]\n" if False else "x = [i for i in (1, 2) if i]\n",
    "class A: pass\n", "class A(): x = 1\n", "class A(B): \n    def f(self): ...\n", "x = ...\n", "x = None, True, False\n", "x = 1 if True else 2,\n",
    "if a: pass\nelif b: pass\nelif c: pass\nelse: pass\n", "x = a or b and not c\n", "x = a | b ^ c & d << e >> f + g - h * i / j // k % l @ m\n", "x = (a, b)[0]\n", "x = a.b.c.d\n",
    "x = 1 .real\n", "x = 1..real\n", "x = 1.j.imag\n", "x = 1if a else 2\n", "x = 0x1for y\n" if False else "x = [1]if a else[2]\n", "print(a, file=b, end='')\n",
    "def f() -> int: pass\n", "def f(a: int = 1, *b: str, c: 'x', **d: float) -> None: pass\n", "x = 'a' 'b' \"c\" '''d''' \"\"\"e\"\"\"\n", "x = b'a' b'b'\n", "x = r'\\n' '\\n'\n",
    "x = '''a\nb\nc'''\n", "x = 'a\\\nb'\n", "if x:\n\tpass\n", "if x:\n        pass\n", "if x:\n  if y:\n      pass\n  else:\n   pass\n", "x = (\n  1,\n  2,\n)\n", "x = [\n]\n", "#!shebang\n# -*- coding: utf-8 -*-\nx = 1\n",
    "x = 1 # comment\n# trailing comment", "x = 1\n\n\n", "\n\n\nx = 1\n", "x = 1;\n", "x = 1; y = 2;\n", "class A:\n\n    x = 1\n\n    # c\n\n    y = 2\n", "def f():\n    '''doc'''\n", "def f(): 'doc'\n",
    "x = a if b else(c)\n", "x = (yield)\n" if False else "x = (a)\n", "x = ((a))\n", "x = (a,)\n", "x = ()\n", "x = []\n", "x = {}\n", "x = a,\n", "x = *a, *b\n", "del a, b.c, d[0]\n", "del (a, b), [c]\n", "del a,\n",
    "print(not a)\n", "x = a if not b else c\n", "x = a ** -b\n", "x = -a ** b\n", "x = await_ + async_\n", "async def f():\n    x = await a ** 2\n    y = -await b\n",
    "global x\n", "x = __debug__\n", "x = 10**100\n", "x = 1_000_000.0_1e1_0j\n", "if True:\n    x = 1\n    # comment at end\n", "if True:\n    x = 1\n# dedented comment\n    y = 2\n",
    "def f(\n    a,\n    # comment\n    b=1,\n):\n    pass\n", "x = {\n    'a': 1,  # one\n    'b': 2,\n}\n", "foo(**{'a': 1})\n", "x = a[b][c](d)(e).f\n", "x = [a, b][::2]\n", "x = not a == b\n", "x = a if b else c, d\n",
    "x = lambda: (yield)\n" if False else "x = lambda *a, **k: (a, k)\n", "x = lambda a=1, *, b=2: a\n", "try:\n    pass\nfinally:\n    pass\n", "with a: pass\n", "with a, b: pass\n", "x = a<b>c\n", "x = a<-b\n", "x = a<=-b\n", "x=a!=b\n", "x = a->b\n" if False else "x = a - -b\n",
]
