"""Token-stream monitors: lossless tiling (C08) and comparison with CPython's tokenize (C09)."""
from __future__ import annotations

import io
import re
import tokenize as pytok

_GAP_LEADING = re.compile(r"[ \t\f]*\Z")


def readlines(text):
    return io.StringIO(text).readlines()


def _slice(lines, start, end):
    (sl, sc), (el, ec) = start, end
    if sl < 1 or el < sl or sl > len(lines) + 1:
        return None
    if sl == el:
        if sl > len(lines):
            return ""
        return lines[sl - 1][sc:ec]
    parts = [lines[sl - 1][sc:]] if sl <= len(lines) else []
    for l in range(sl + 1, el):
        if l <= len(lines):
            parts.append(lines[l - 1])
    if el <= len(lines):
        parts.append(lines[el - 1][:ec])
    return "".join(parts)


def tiling_violations(text, toks, limit=5, mismatched_out=None, gaps_out=None):
    """pure function of (text, token list): list of (kind, detail) violations of the lossless-tiling property; mismatched_out receives the
    indices of all tokens whose text differs from their source slice, gaps_out every uncovered gap as (start, end, text)"""
    from peg_parser.tokenize import Token

    lines = readlines(text)
    out = []
    mismatched = []

    def bad(kind, detail, gap=None):
        if len(out) < limit:
            out.append((kind, detail))
        if gap is not None and gaps_out is not None:
            gaps_out.append(gap)

    ZERO = {Token.DEDENT, Token.ENDMARKER}
    SIGNIFICANT = {Token.NAME, Token.NUMBER, Token.STRING, Token.OP, Token.FSTRING_START, Token.FSTRING_MIDDLE, Token.FSTRING_END,
                   Token.SEARCH_PATH, Token.MACRO_PARAM, Token.ERRORTOKEN}
    prev_end = (1, 0)
    balance = 0
    pending = False  # significant token since last NEWLINE
    n_end = 0
    for i, t in enumerate(toks):
        zero = t.type in ZERO or (t.type == Token.NEWLINE and t.string == "")
        if t.start > t.end:
            bad("start-after-end", repr(t))
        if t.start < prev_end:
            bad("overlap-or-disorder", f"{t!r} starts {t.start} before previous end {prev_end}")
        if not zero:
            s = _slice(lines, t.start, t.end)
            if s != t.string:
                mismatched.append(i)
                bad("text-mismatch", f"{t.type.name} string {t.string!r:.60} != source slice {s!r:.60} at {t.start}-{t.end}")
            gap = _slice(lines, prev_end, t.start) if t.start > prev_end else ""
            if gap:
                _check_gap(bad, lines, prev_end, t.start, gap)
            prev_end = max(prev_end, t.end)
        else:
            if t.type == Token.NEWLINE:
                # implicit NEWLINE sits at the end of the last line
                if t.start < prev_end:
                    bad("implicit-newline-before-previous-token", repr(t))
            elif t.start != t.end:
                bad("zero-width-token-with-extent", repr(t))
        if t.type == Token.INDENT:
            balance += 1
            if t.start[1] != 0:
                bad("indent-not-at-line-start", repr(t))
            if pending:
                bad("indent-inside-logical-line", repr(t))
        elif t.type == Token.DEDENT:
            balance -= 1
            if balance < 0:
                bad("negative-indent-balance", repr(t))
            if pending:
                bad("dedent-inside-logical-line", repr(t))
        elif t.type == Token.NEWLINE:
            pending = False
        elif t.type == Token.ENDMARKER:
            n_end += 1
            if i != len(toks) - 1:
                bad("endmarker-not-last", f"index {i} of {len(toks)}")
            if pending:
                bad("logical-line-not-closed-by-newline", f"before {t!r}")
        elif t.type in SIGNIFICANT:
            pending = True
    if mismatched_out is not None:
        mismatched_out.extend(mismatched)
    if n_end != 1:
        bad("endmarker-count", n_end)
    if balance != 0:
        bad("indent-dedent-unbalanced", balance)
    # everything after the last real token must be allowed gap text
    last = (len(lines), len(lines[-1])) if lines else (1, 0)
    if prev_end < last:
        gap = _slice(lines, prev_end, last)
        if gap:
            _check_gap(bad, lines, prev_end, last, gap)
    return out


def _check_gap(bad, lines, a, b, gap):
    """a gap may consist of line-leading indentation and backslash-newline continuations only"""
    pos_at_line_start = a[1] == 0 or (a[0] <= len(lines) and a[1] >= len(lines[a[0] - 1]))
    rest = gap
    while rest:
        if pos_at_line_start:
            m = re.match(r"[ \t\f]*", rest)
            rest = rest[m.end():]
            pos_at_line_start = False
            if not rest:
                break
        if rest.startswith("\\\r\n"):
            rest = rest[3:]
            pos_at_line_start = True
        elif rest.startswith("\\\n"):
            rest = rest[2:]
            pos_at_line_start = True
        else:
            # the uncovered remainder and where it starts (None when it spans lines)
            bad("uncovered-text", f"{gap!r:.60} between {a} and {b}", ((b[0], b[1] - len(rest)) if "\n" not in rest else None, b, rest))
            return


# ------------------------------------------------------------------------------------------------


def xonsh_sig(toks):
    from peg_parser.tokenize import Token

    out = []
    for t in toks:
        if t.type in (Token.WS, Token.COMMENT, Token.NL):
            continue
        out.append((t.type.name, t.string, tuple(t.start), tuple(t.end)))
    return out


_PYNAMES = {pytok.NAME: "NAME", pytok.NUMBER: "NUMBER", pytok.STRING: "STRING", pytok.OP: "OP", pytok.NEWLINE: "NEWLINE", pytok.INDENT: "INDENT",
            pytok.DEDENT: "DEDENT", pytok.ENDMARKER: "ENDMARKER", pytok.FSTRING_START: "FSTRING_START", pytok.FSTRING_MIDDLE: "FSTRING_MIDDLE",
            pytok.FSTRING_END: "FSTRING_END", pytok.ERRORTOKEN: "ERRORTOKEN"}


def cpython_sig(toks):
    out = []
    for t in toks:
        if t.type in (pytok.COMMENT, pytok.NL):
            continue
        end = tuple(t.end)
        if t.type in (pytok.STRING, pytok.FSTRING_MIDDLE) and t.start[0] != t.end[0] and not t.string.isascii():
            # CPython 3.12.1's tokenize reports the end column of a multi-line string token as a UTF-8 byte offset
            # (it then overlaps the following NEWLINE token); use the character offset, which is what its own
            # token text implies
            end = (t.end[0], len(t.string.rsplit("\n", 1)[1]))
        out.append((_PYNAMES.get(t.type, str(t.type)), t.string, tuple(t.start), end))
    return out


_STRUCTURAL = {"NEWLINE", "INDENT", "DEDENT", "ENDMARKER"}


def placement_only(sig):
    """the property compares NEWLINE/INDENT/DEDENT/ENDMARKER by their place in the sequence only"""
    return [(t[0],) if t[0] in _STRUCTURAL else t for t in sig]


def first_diff(a, b):
    for i, (x, y) in enumerate(zip(a, b)):
        if x != y:
            return i, x, y
    if len(a) != len(b):
        i = min(len(a), len(b))
        return i, (a[i] if i < len(a) else None), (b[i] if i < len(b) else None)
    return None


_STRING_STARTS = re.compile(r"(?:[A-Za-z]{0,2}['\"])+\Z")
_STRING_START = re.compile(r"[A-Za-z]{0,2}['\"]")


def pending_string_symptom(text, toks, mismatched, gaps):
    """The stream-observable signature of finding F08a (a plain single-quoted string start that is not closed on its line emits no
    token and stays pending; a quote on a later line closes it): every uncovered gap consists of string starts only (optional prefix
    letters and one quote character each), a STRING token emitted later starts exactly where each of them starts and begins with it,
    and these late STRING tokens are the only tokens whose text differs from their source slice. Displaced or mis-sized tokens of any
    other origin (a wrong end column, a dropped buffer, a token emitted twice) do not have this shape.  Input side, read off the
    source text alone: each such string start is really left open on its physical line (no unescaped closing quote after it) and
    the line does not end in a backslash continuation (LF or CRLF) - a continued string is legitimate and must yield one token."""
    from peg_parser.tokenize import Token

    if not gaps or not mismatched:
        return False
    lines = readlines(text)
    starts = {}
    for a, b, gap in gaps:
        if a is None or not _STRING_STARTS.match(gap):
            return False
        for m in _STRING_START.finditer(gap):
            pos = (a[0], a[1] + m.start())
            if not (1 <= pos[0] <= len(lines)):
                return False
            line = lines[pos[0] - 1]
            rest = line[pos[1] + len(m.group()):]
            q = m.group()[-1]
            body = rest.rstrip("\r\n")
            closed = re.match(rf"(?:[^{q}\\]|\\.)*{q}", body)
            stem = line.removesuffix("\n").removesuffix("\r")
            continued = len(stem) < len(line) and (len(stem) - len(stem.rstrip("\\"))) % 2 == 1  # an unescaped backslash before the line end
            if closed or continued:
                return False
            starts[pos] = m.group()
    closed = set()
    for i in mismatched:
        t = toks[i]
        if t.type != Token.STRING or t.start not in starts or not t.string.startswith(starts[t.start]):
            return False
        closed.add(t.start)
    return closed == set(starts)
