"""Child interpreter of C12: started with a chosen locale/UTF-8-mode environment; for every case file parses the file and
the same text as a string, and reports both outcome signatures plus what the open() spy saw."""
import ast
import builtins
import json
import locale
import os
import pathlib
import signal
import sys


def main():
    repo, casedir = sys.argv[1], sys.argv[2]
    sys.path.insert(0, repo)
    import peg_parser.subheader as sh
    import peg_parser.tokenizer as tk
    from peg_parser.parser import XonshParser
    from peg_parser.tokenize import TokenError

    opened = []

    def spy(file, *a, **k):
        f = builtins.open(file, *a, **k)
        opened.append((os.path.basename(str(file)), getattr(f, "encoding", None)))
        return f

    sh.open = spy
    tk.open = spy
    if hasattr(sh, "tokenize") and hasattr(sh.tokenize, "open"):
        # the file entry point may open its source through the standard library's tokenize.open (PEP 263 detection)
        real_tokenize_open = sh.tokenize.open

        def spy_tokenize_open(file, *a, **k):
            f = real_tokenize_open(file, *a, **k)
            opened.append((os.path.basename(str(file)), getattr(f, "encoding", None)))
            return f

        sh.tokenize.open = spy_tokenize_open
    # ... or read the bytes in one piece (pathlib goes through io.open) and decode them itself: a binary open has no encoding of its
    # own, which is recorded as such; that the bytes are then decoded as UTF-8 whatever the locale says shows in the outcomes
    import io as _io_mod

    real_io_open = _io_mod.open

    def spy_io_open(file, mode="r", *a, **k):
        f = real_io_open(file, mode, *a, **k)
        if str(file).endswith(".xsh"):
            opened.append((os.path.basename(str(file)), getattr(f, "encoding", None) or "binary"))
        return f

    _io_mod.open = spy_io_open

    class Timeout(BaseException):
        pass

    def on_alarm(*_):
        raise Timeout()

    signal.signal(signal.SIGALRM, on_alarm)

    def sig(fn, *a, _limit=30, **k):
        signal.setitimer(signal.ITIMER_REAL, _limit)
        try:
            try:
                t = fn(*a, **k)
            finally:
                signal.setitimer(signal.ITIMER_REAL, 0)
            return ["tree", _dump(t)] if t is not None else ["none"]
        except Timeout:
            return ["timeout"]
        except SyntaxError as e:
            return ["syntax", type(e).__name__, str(e.msg), e.lineno, e.offset, getattr(e, "end_lineno", None), getattr(e, "end_offset", None), e.text]
        except TokenError as e:
            return ["token", str(e)[:200]]
        except BaseException as e:
            return ["other", type(e).__name__, str(e)[:200]]

    def _nopath(s, path):
        # "differing only in the reported file name": a message that quotes the path is compared with the path blanked
        return [x.replace(str(path), "<file>") if isinstance(x, str) else x for x in s]

    def _dump(node):
        # deterministic also for malformed trees that hold raw tuples (their repr would contain object addresses)
        if isinstance(node, ast.AST):
            parts = [f"{f}={_dump(getattr(node, f, None))}" for f in node._fields] + [f"{a}={getattr(node, a, None)!r}" for a in node._attributes]
            return f"{type(node).__name__}({', '.join(parts)})"
        if isinstance(node, (list, tuple)):
            return "[" + ", ".join(_dump(x) for x in node) + "]"
        return repr(node)

    out = {"env": {"preferred": locale.getpreferredencoding(False), "utf8_mode": sys.flags.utf8_mode, "fsenc": sys.getfilesystemencoding()}, "cases": []}
    names = sorted(n for n in os.listdir(casedir) if n.endswith(".xsh"))
    for n in names:
        p = os.path.join(casedir, n)
        with builtins.open(p, "rb") as f:
            raw = f.read()
        # the content as CPython decodes a source file: the encoding of a PEP 263 declaration (default UTF-8), a UTF-8 byte order mark
        # is not part of it; line ends are left as they are (the string entry point has to translate them itself)
        try:
            import io as _io
            import tokenize as _pytok

            undecodable = None
            # (the declaration is looked for in the first two lines whatever the line ends are, as CPython's own tokenizer does;
            # the standard library's detect_encoding splits at "\n" only)
            import re as _re

            head = iter([l + b"\n" for l in _re.split(rb"\r\n|\r|\n", raw, maxsplit=2)[:2]])
            enc, _ = _pytok.detect_encoding(lambda: next(head, b""))
            text = raw.decode(enc)
            # cross-check of this reference decoding against CPython itself: the bytes and the text must compile to the same tree
            try:
                if ast.dump(ast.parse(raw)) != ast.dump(ast.parse(text)):
                    undecodable = "reference-decoding-disagrees-with-cpython"
            except (SyntaxError, ValueError):
                pass
        except (SyntaxError, UnicodeDecodeError, LookupError) as e:
            # the bytes are not a text at all for CPython (a declaration naming an unknown encoding, bytes invalid in the declared one):
            # there is no "string with the same content" to compare with; only the file side's refusal is observed
            undecodable = type(e).__name__
            text = raw.decode("utf-8-sig", "replace")
        del opened[:]
        fsig = sig(XonshParser.parse_file, pathlib.Path(p))
        seen = list(opened)
        ssig = sig(XonshParser.parse_string, text, mode="exec")
        # the documented normaliser of finding F12c: universal-newline translation of the string side
        tsig = None
        if "\r" in text:
            tsig = sig(XonshParser.parse_string, text.replace("\r\n", "\n").replace("\r", "\n"), mode="exec")
        fsig = _nopath(fsig, p)
        located = None
        if undecodable and fsig[0] == "syntax" and undecodable != "reference-decoding-disagrees-with-cpython":
            # the refusal of bytes that are no text names a line of the file and quotes it
            import re as _re2

            raw_lines = _re2.split(rb"\r\n|\r|\n", raw)
            located = bool(isinstance(fsig[3], int) and 1 <= fsig[3] <= len(raw_lines) and isinstance(fsig[7], str)
                           and fsig[7].rstrip("\r\n") == raw_lines[fsig[3] - 1].decode("utf-8", "replace"))
        out["cases"].append({"name": n, "file": fsig, "string": ssig, "translated": tsig, "opened": seen, "undecodable": undecodable, "located": located})
    # second pass: one path whose content is rewritten before every parse (an edited script parsed again in the same process):
    # the file entry point must see the current content, exactly as the fresh path did
    same = os.path.join(casedir, "_same_path.xsh")
    for n, c in zip(names, out["cases"]):
        with builtins.open(os.path.join(casedir, n), "rb") as f:
            data = f.read()
        with builtins.open(same, "wb") as f:
            f.write(data)
        c["rewritten"] = _nopath(sig(XonshParser.parse_file, pathlib.Path(same)), same)
    # third pass: the same bytes through a path that can be read only once and cannot seek (a named pipe, as /dev/stdin is)
    import threading

    fifo = os.path.join(casedir, "_pipe.xsh")
    try:
        os.mkfifo(fifo)
    except (OSError, AttributeError):
        fifo = None
    for n, c in list(zip(names, out["cases"]))[:: max(1, len(names) // 60)] if fifo else ():
        with builtins.open(os.path.join(casedir, n), "rb") as f:
            data = f.read()
        if len(data) > 60000:
            continue

        def feed(data=data):
            try:
                with builtins.open(fifo, "wb") as w:
                    w.write(data)
            except OSError:
                pass

        t = threading.Thread(target=feed, daemon=True)
        t.start()
        c["piped"] = _nopath(sig(XonshParser.parse_file, pathlib.Path(fifo), _limit=8), fifo)
        t.join(0.5)
        if c["piped"][0] == "timeout":
            # a second attempt to open the pipe blocks for good (its only writer is gone): one such case says it all
            break
        if t.is_alive():
            # the parser never opened the path: let the writer go
            try:
                fd = os.open(fifo, os.O_RDONLY | os.O_NONBLOCK)
                t.join(2)
                os.close(fd)
            except OSError:
                pass
    sys.stdout.write(json.dumps(out, ensure_ascii=True))


main()
