"""Child interpreter of C12: started with a chosen locale/UTF-8-mode environment; for every case file parses the file and
the same text as a string, and reports both outcome signatures plus what the open() spy saw."""
import ast
import builtins
import json
import locale
import os
import pathlib
import signal
import sys


def main():
    repo, casedir = sys.argv[1], sys.argv[2]
    sys.path.insert(0, repo)
    import peg_parser.subheader as sh
    import peg_parser.tokenizer as tk
    from peg_parser.parser import XonshParser
    from peg_parser.tokenize import TokenError

    opened = []

    def spy(file, *a, **k):
        f = builtins.open(file, *a, **k)
        opened.append((os.path.basename(str(file)), getattr(f, "encoding", None)))
        return f

    sh.open = spy
    tk.open = spy
    if hasattr(sh, "tokenize") and hasattr(sh.tokenize, "open"):
        # the file entry point may open its source through the standard library's tokenize.open (PEP 263 detection)
        real_tokenize_open = sh.tokenize.open

        def spy_tokenize_open(file, *a, **k):
            f = real_tokenize_open(file, *a, **k)
            opened.append((os.path.basename(str(file)), getattr(f, "encoding", None)))
            return f

        sh.tokenize.open = spy_tokenize_open

    class Timeout(BaseException):
        pass

    def on_alarm(*_):
        raise Timeout()

    signal.signal(signal.SIGALRM, on_alarm)

    def sig(fn, *a, **k):
        signal.setitimer(signal.ITIMER_REAL, 30)
        try:
            try:
                t = fn(*a, **k)
            finally:
                signal.setitimer(signal.ITIMER_REAL, 0)
            return ["tree", _dump(t)] if t is not None else ["none"]
        except Timeout:
            return ["timeout"]
        except SyntaxError as e:
            return ["syntax", type(e).__name__, str(e.msg), e.lineno, e.offset, getattr(e, "end_lineno", None), getattr(e, "end_offset", None), e.text]
        except TokenError as e:
            return ["token", str(e)[:200]]
        except BaseException as e:
            return ["other", type(e).__name__, str(e)[:200]]

    def _nopath(s, path):
        # "differing only in the reported file name": a message that quotes the path is compared with the path blanked
        return [x.replace(str(path), "<file>") if isinstance(x, str) else x for x in s]

    def _dump(node):
        # deterministic also for malformed trees that hold raw tuples (their repr would contain object addresses)
        if isinstance(node, ast.AST):
            parts = [f"{f}={_dump(getattr(node, f, None))}" for f in node._fields] + [f"{a}={getattr(node, a, None)!r}" for a in node._attributes]
            return f"{type(node).__name__}({', '.join(parts)})"
        if isinstance(node, (list, tuple)):
            return "[" + ", ".join(_dump(x) for x in node) + "]"
        return repr(node)

    out = {"env": {"preferred": locale.getpreferredencoding(False), "utf8_mode": sys.flags.utf8_mode, "fsenc": sys.getfilesystemencoding()}, "cases": []}
    names = sorted(n for n in os.listdir(casedir) if n.endswith(".xsh"))
    for n in names:
        p = os.path.join(casedir, n)
        with builtins.open(p, "rb") as f:
            raw = f.read()
        # the content as CPython decodes a source file: the encoding of a PEP 263 declaration (default UTF-8), a UTF-8 byte order mark
        # is not part of it; line ends are left as they are (the string entry point has to translate them itself)
        try:
            import io as _io
            import tokenize as _pytok

            undecodable = None
            enc, _ = _pytok.detect_encoding(_io.BytesIO(raw).readline)
            text = raw.decode(enc)
        except (SyntaxError, UnicodeDecodeError, LookupError) as e:
            # the bytes are not a text at all for CPython (a declaration naming an unknown encoding, bytes invalid in the declared one):
            # there is no "string with the same content" to compare with; only the file side's refusal is observed
            undecodable = type(e).__name__
            text = raw.decode("utf-8-sig", "replace")
        del opened[:]
        fsig = sig(XonshParser.parse_file, pathlib.Path(p))
        seen = list(opened)
        ssig = sig(XonshParser.parse_string, text, mode="exec")
        # the documented normaliser of finding F12c: universal-newline translation of the string side
        tsig = None
        if "\r" in text:
            tsig = sig(XonshParser.parse_string, text.replace("\r\n", "\n").replace("\r", "\n"), mode="exec")
        fsig = _nopath(fsig, p)
        out["cases"].append({"name": n, "file": fsig, "string": ssig, "translated": tsig, "opened": seen, "undecodable": undecodable})
    # second pass: one path whose content is rewritten before every parse (an edited script parsed again in the same process):
    # the file entry point must see the current content, exactly as the fresh path did
    same = os.path.join(casedir, "_same_path.xsh")
    for n, c in zip(names, out["cases"]):
        with builtins.open(os.path.join(casedir, n), "rb") as f:
            data = f.read()
        with builtins.open(same, "wb") as f:
            f.write(data)
        c["rewritten"] = _nopath(sig(XonshParser.parse_file, pathlib.Path(same)), same)
    sys.stdout.write(json.dumps(out, ensure_ascii=True))


main()
