"""Run the project's documented generation steps on the working tree into a scratch directory."""
from __future__ import annotations

import ast
import hashlib
import json
import os
import shutil
import subprocess
import tempfile

from . import base

PAIRS = {
    "xonsh": {"grammar": "tasks/xonsh.gram", "shipped": "peg_parser/parser.py", "cls": "XonshParser"},
    "meta": {"grammar": "pegen/metagrammar.gram", "shipped": "pegen/grammar_parser.py", "cls": "GeneratedParser"},
}

_WRAPPER = r"""
import sys, os, json, runpy
log = []
def hook(ev, args):
    if ev == 'open':
        path, mode, flags = args
        if isinstance(mode, str) and any(c in mode for c in 'wax+'):
            log.append(os.path.abspath(os.fsdecode(path)) if not isinstance(path, int) else '<fd>')
        elif mode is None and isinstance(flags, int) and flags & (os.O_WRONLY | os.O_RDWR):
            log.append(os.path.abspath(os.fsdecode(path)) if not isinstance(path, int) else '<fd>')
sys.addaudithook(hook)
kind, out, auditlog = sys.argv[1:4]
try:
    if kind == 'xonsh':
        sys.path.insert(0, os.path.abspath('tasks'))
        sys.argv = ['tasks/generator.py', '-g', 'tasks/xonsh.gram', '-o', out]
        runpy.run_path('tasks/generator.py', run_name='__main__')
    else:
        sys.argv = ['pegen', 'pegen/metagrammar.gram', '-o', out, '-q']
        runpy.run_module('pegen', run_name='__main__', alter_sys=True)
finally:
    with open(auditlog, 'w') as f:
        json.dump(log, f)
"""


def generate(kind, hashseed, scratch, repo=None, grammar=None):
    """returns (returncode, output path, list of files opened for writing, stderr tail)"""
    repo = repo or base.REPO
    out = os.path.join(scratch, f"{kind}_{hashseed}.py")
    audit = os.path.join(scratch, f"{kind}_{hashseed}.audit")
    env = dict(os.environ, PYTHONHASHSEED=str(hashseed), PYTHONPATH=repo, PYTHONDONTWRITEBYTECODE="1")
    p = subprocess.run([base.PY, "-c", _WRAPPER, kind, out, audit], cwd=repo, env=env, capture_output=True, text=True, timeout=300)
    writes = []
    if os.path.exists(audit):
        with open(audit) as f:
            writes = [w for w in json.load(f) if w != os.path.abspath(audit)]
    return p.returncode, out, writes, (p.stderr or "")[-1500:]


def normalise(source, clsname):
    """{'methods': {name: dump}, 'tables': {name: value}} of the parser class; formatting, imports and
    return annotations do not matter"""
    tree = ast.parse(source)
    cls = next((n for n in tree.body if isinstance(n, ast.ClassDef) and n.name == clsname), None)
    if cls is None:
        return None
    methods, tables = {}, {}
    for node in cls.body:
        if isinstance(node, (ast.FunctionDef, ast.AsyncFunctionDef)):
            node.returns = None
            for a in node.args.posonlyargs + node.args.args + node.args.kwonlyargs:
                a.annotation = None
            body = [n for n in node.body if not (isinstance(n, ast.Expr) and isinstance(n.value, ast.Constant) and isinstance(n.value.value, str))]
            methods[node.name] = ast.dump(ast.Module(body=[*node.decorator_list, node.args, *body], type_ignores=[]))
        elif isinstance(node, (ast.Assign, ast.AnnAssign)):
            tgt = node.targets[0] if isinstance(node, ast.Assign) else node.target
            if isinstance(tgt, ast.Name) and node.value is not None:
                try:
                    tables[tgt.id] = repr(ast.literal_eval(node.value))
                except ValueError:
                    tables[tgt.id] = ast.dump(node.value)
    return {"methods": methods, "tables": tables}


def compare(shipped_src, generated_src, clsname):
    a, b = normalise(shipped_src, clsname), normalise(generated_src, clsname)
    if a is None or b is None:
        return [("class", clsname, "missing in " + ("shipped" if a is None else "generated"))], 0
    diffs = []
    for name in sorted(set(a["methods"]) | set(b["methods"])):
        if name not in a["methods"]:
            diffs.append(("method", name, "generated only"))
        elif name not in b["methods"]:
            diffs.append(("method", name, "shipped only"))
        elif a["methods"][name] != b["methods"][name]:
            diffs.append(("method", name, "bodies differ"))
    for name in sorted(set(a["tables"]) | set(b["tables"])):
        if a["tables"].get(name) != b["tables"].get(name):
            diffs.append(("table", name, f"shipped={a['tables'].get(name)!s:.120} generated={b['tables'].get(name)!s:.120}"))
    return diffs, len(set(a["methods"]) | set(b["methods"]))


def sha(path):
    with open(path, "rb") as f:
        return hashlib.sha256(f.read()).hexdigest()
