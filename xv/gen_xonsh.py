"""xonsh-side workloads: statement pool of every sugar form, hostile mutation, character soup."""
from __future__ import annotations

import random

# complete top-level statements (each ends with a newline) covering every xonsh form
XONSH_STMTS = [
    "$WAKKA\n", "$y = 'one'\n", "y = $x\n", "y = ${x}\n", "${x} = 65\n", "${'x' + 'y'}\n", "${$JAWAKA}\n", "${${'JAWA' + $JAWAKA[-2:]}}\n",
    "x = $(ls -l)\n", "$[git commit -am 'wakka']\n", "r = !(echo hi)\n", "![ls me] and ![grep wakka]\n", "![ls] && ![grep wakka] || ![false]\n",
    "$(ls | grep wakka > x.py)\n", "!(emacs ugggh &)\n", "$(ls `#[Ff]+i*LE` -l)\n", "print(@foo`.*`)\n", "x = g`*.py`\n", "x = r`a\\.b` + `c`\n",
    "$[ls @$(dirname @$(which python))]\n", "![a@$(echo 1 2)b]\n", "$(echo @(x) @(y + 1) $HOME ${'a'} 'q' \"w\")\n", "$(echo pre@(x)post)\n",
    "x = p'/foo'\n", "x = pr'/foo' / 'bar'\n", "x = pf'/foo{1+1}'\n", "x = Fp\"/a{b}\"\n", "range?\n", "range??\n", "range?.index?\n", "x.y?\n" if False else "int?\n",
    "f!(x, y + 1, [a, b])\n", "g!( if a then b )\n", "f!()\n", "h!(a)(b)\n" if False else "q = f!(a b c)\n", "print(f!(x), 2)\n",
    "with! ctx:\n    ls -l\n    echo hi\n", "with! ctx as c:\n    if x:\n        y\n    z\n", "with! a: b c d\n", "echo! hello   world\n" if False else "$(echo! hello   world)\n",
    "![bash -c! echo 'a' && ls]\n", "!(ls! -l $HOME)\n", "for $x in y:\n    pass\n", "with a as $b:\n    pass\n", "[1 for $x in y]\n", "for ${'a'} in b: pass\n",
    "x = [$(a) for a in $PATH if !(test -d @(a))]\n", "f($A, k=$(b), *@foo`x`)\n" if False else "f($A, k=$(b))\n", "d = {$K: ${'v'}, **$(x)}\n" if False else "d = {$K: ${'v'}}\n",
    "if $(which ls):\n    $[ls]\nelse:\n    ![false]\n", "def f():\n    return $(pwd).strip()\n", "x = $HOME + '/' + $(whoami)\n", "lambda: $X\n", "x = $A if $B else $C\n",
    "$PATH.append('x')\n", "$PATH[0]\n", "$(ls)[0]\n" if False else "$(ls).split()\n", "x = f'{$HOME}/bin'\n", "x = f\"{$(pwd)!r:>10}\"\n", "a = 1; $B = 2; c = $(d)\n",
    "$(cmd sub-cmd --opt=1 -x 2>&1 a>b e>o)\n", "$(echo 1,2 , a=b c:d +x %y ^z ~w *s)\n", "$(echo 1e5x 0x1f 1_000 3j 1. .5 -> ** // <<= := ...)\n",
    "![echo \"a b\" 'c d' r'e' b'f']\n", "$(ls $HOME/x $HOMEx ${'H'}y)\n" if False else "$(ls $HOME ${'H'})\n", "x = $(echo $(echo $(echo a)))\n", "$[a ![b !(c $[d])]]\n",
    "@(x)\n" if False else "$(@(x) y)\n", "$(echo @([1, 2]) @(a for a in b))\n", "aliases['x'] = lambda: $(y)\n", "assert $X, $Y\n", "del $X\n" if False else "print($X)\n",
    "x = a ? b : c\n" if False else "y = a || b && c\n", "while ![test]: $[step]\n", "try:\n    $[a]\nexcept E as e:\n    $[b]\nfinally:\n    $C = 1\n",
    "class A:\n    x = $X\n    def f(self): return ${self.n}\n", "async def f():\n    await g($X)\n", "match $X:\n    case 1: $[a]\n    case _: pass\n",
    "x = [`a`, g`b`, p'c', $D, ${'e'}, $(f), $[g], !(h), ![i], j?, k??]\n" if False else "x = [`a`, g`b`, p'c', $D, ${'e'}, $(f), $[g], !(h), ![i]]\n",
]
XONSH_STMTS = [s for s in XONSH_STMTS if s]

PY_STMTS = [
    "x = 1\n", "def f(a, b=2, *c, d, **e):\n    return a\n", "class A(B):\n    x: int = 1\n\n    def m(self): pass\n", "for i in range(3):\n    print(i)\nelse:\n    pass\n",
    "if a:\n    b\nelif c:\n    d\nelse:\n    e\n", "try:\n    a\nexcept B as c:\n    d\nfinally:\n    e\n", "with a as b, c:\n    d\n", "import a.b as c\nfrom . import d\n",
    "x = [i for i in y if i]\n", "x = {a: b for a, b in c}\n", "x = lambda a, *b: (a, b)\n", "x = '''multi\nline\n'''\n", "x = (1,\n     2,\n     3)\n", "x = f'{a!r:>{w}} {b=}'\n",
    "x = f'{a}' 'b' f\"{c}\"\n", "@dec(1)\n@other\ndef g(): ...\n", "match x:\n    case [1, *r]: pass\n    case {'k': v}: pass\n    case _: pass\n", "async def f():\n    async with a as b:\n        await c\n",
    "while a: break\n", "x = a if b else c\n", "a, *b = c\n", "x += 1; y -= 2\n", "print('a', \"b\", sep='')\n", "# comment only\n", "\n", "x = a[1:2, ::3]\n", "type X = int\n",
    "try:\n    a\nexcept* B:\n    c\n", "def f[T](x: T) -> T: return x\n", "assert a, b\n", "del a, b[0]\n", "global g\n", "raise A from B\n", "x = not a < b <= c\n", "x = 'it''s' \"q\"\n",
    "x = {\n  'a': 1,  # c\n}\n", "x = 1 if a else 2 if b else 3\n", "def g():\n    yield 1\n    x = yield from y\n", "x = a @ b ** -c // d\n", "if (n := f()) > 1: pass\n",
]

HOSTILE = list("()[]{}'\"\\`$?!@#&|<>=:;,.~^%*+-/ \t\n\r\f\0") + [
    "\ufeff", "€", "é", "\u0301", "λ", "\u00a0", "\u2028", "\x1b", "\x7f", "$(", "$[", "${", "!(", "![", "@(", "@$(", "&&", "||", "??", ">&", "f'", 'f"', "'''", '"""',
    "p'", "rb'", "\\\n", "if", "with!", "else", "in", "not", "lambda", "def", "class", "import", "await", "!=", ":=", "->", "{{", "}}", "f'{", "f'{x:", "!r", "\r\n", "    ", "\t",
    "0x", "1e", "1_", ".5", "1j", "#", " # c\n", "e!", "f!(", "x?", "a b",
]


MATCH_MACROS = [h + a + t for h in ("match!(", "match !(") for a in ("x", "a, b", "a b c d e", "it's", "@(x + y + z)", "", "a, [b,\n c]") for t in (")\n", ") + f(y)\n", ").c(d, e)\n", "), g!(z)\n", ") if p else q\n", "):\n    case 1: pass\n")]
MACRO_OPENERS = ["f!(", "g!(a, ", "x = h!(", "f!(a)(b!(", "with! x: ", "with! x:\n    ", "with! a, b:\n  ", "$(cmd! ", "![echo! ", "!(a! ", "$[b! ", "f!(a) b ", "@(f!("]
MACRO_PIECES = ["(", ")", "[", "]", "{", "}", ",", " ", "a", "b1", "\n", "'s'", "\"", "'", "#c", ":", "!", ";", "\n    ", "$(", "@(", "f'{", "}}", "\\\n", "1", "if", "lambda"]


def macro_soup(rnd):
    """raw-capture modes (call / with / subprocess macros) fed with unbalanced bracket and quote sequences: the capture keeps its own
    bracket and indent bookkeeping next to the tokenizer's"""
    body = "".join(rnd.choice(MACRO_PIECES) for _ in range(rnd.randint(1, 10)))
    return rnd.choice(MACRO_OPENERS) + body + rnd.choice(["", "", "\n", ")", "]", ")\n", "\nx = 1\n"])


def soup(rnd, n=None):
    if n is None and rnd.random() < 0.1:
        return macro_soup(rnd)
    n = n or rnd.randint(1, 24)
    return "".join(rnd.choice(HOSTILE) if rnd.random() < 0.7 else rnd.choice(["a", "b", "x1", "foo", "1", "2.5", "'s'", " "]) for _ in range(n))


def char_edits(rnd, s, k=None):
    k = k or rnd.randint(1, 3)
    for _ in range(k):
        if not s:
            s = rnd.choice(HOSTILE)
            continue
        i = rnd.randrange(len(s) + 1)
        r = rnd.random()
        if r < 0.35:
            s = s[:i] + rnd.choice(HOSTILE) + s[i:]
        elif r < 0.65:
            s = s[:i] + s[i + 1 :]
        elif r < 0.9:
            s = s[:i] + rnd.choice(HOSTILE) + s[i + 1 :]
        else:
            j = rnd.randrange(len(s) + 1)
            a, b = sorted((i, j))
            s = s[:a] + s[b:]
    return s


def prefixes(rnd, s, k=4):
    if len(s) < 2:
        return []
    return [s[: rnd.randrange(1, len(s))] for _ in range(k)]


UNTERMINATED = [
    "x = 'abc", 'x = "abc', "x = '''abc\ndef", 'x = """abc\n', "x = f'abc", "x = f'{a", "x = f'{a:", "x = f'{a!r", "x = f'''{a\n", "x = (1,", "x = [1, [2,", "x = {1: (2,",
    "f(", "f(a,\n", "x = 1 + \\", "x = 1 + \\\n", "\\", "\\\n", "x = 1 \\ 2", "x = $(ls", "x = $[ls", "x = ![ls", "x = !(ls", "x = ${a", "x = @(", "$(echo @(a", "$(echo @$(b",
    "f!(", "f!(a", "f!(a,", "f!(a, (b", "f!(]", "f!(a,, b)", "with! x:", "with! x:\n", "with! x:\n ", "with! x:\n  a\n b\n", "$(echo! ", "x = `abc", "x = p'abc", "x = rb'", "if x:", "if x:\n",
    "if x:\n  a\n b\n", "def f(", "class A(", "x = a ?", "a??", "? a", "$", "$ x", "${}", "$()", "![]", "x = 1\n  y = 2\n", "\tx\n        y\n", "x = )", "x = ]", "x = }", "x = (]", "f'{a}}'", "f'}'", "f'{'",
    "f'{a!}'", "f'{a!x}'", "f'{!r}'", "f'{}'", "f'{a:{}}'", "f'{a:{b:{c}}}'", "'a' b'b'", "$(echo r'x'b'y')", "$(echo a.b?)", "x = 1e", "x = 0x", "x = 1_", "x = 0b2", "x = 09", "x = 1__0", "x = 1.e", "x = 1jj",
    "a?.[1]?", "a?.'x'?", "a?.(b)?", "a?.1?", "[1]?.b?", "a??.b?", "a?.b?.{c}?", "f(a?.[b]?)", "x = a?.$B?", "a?.$(ls)?", "a?.`g`?", "a?.b!(c)?", "a?.p'/x'?",
    "\r", "a\rb", "a\r\nb\r", "\0", "a\0b", "\ufeffx = 1\n", "\f", "\x0c\x0c x", "x\n\x0c", "é", "x = é€", "x = '€' €", "def é(): pass", "x\u00a0=\u00a01", "x = 1\u2028y = 2",
]


def bracket_newlines(rnd, s, k=None):
    """layout mutant for xonsh text: newline + indentation right after an opening bracket or a comma (outside quotes, heuristically)"""
    spots = []
    quote = None
    i = 0
    while i < len(s):
        ch = s[i]
        if quote:
            if ch == "\\":
                i += 2
                continue
            if s.startswith(quote, i):
                i += len(quote)
                quote = None
                continue
        elif ch in "'\"":
            quote = s[i : i + 3] if s[i : i + 3] in ("'''", '"""') else ch
            i += len(quote)
            continue
        elif ch == "#":
            j = s.find("\n", i)
            i = len(s) if j < 0 else j
            continue
        elif ch in "([{,":
            spots.append(i + 1)
        i += 1
    if not spots:
        return None
    for pos in sorted(rnd.sample(spots, min(len(spots), k or rnd.randint(1, 3))), reverse=True):
        s = s[:pos] + "\n" + " " * rnd.choice([0, 1, 2, 4, 7, 12]) + s[pos:]
    return s
