"""Corpus of real programs: the running interpreter's standard library + the repository's own sources."""
from __future__ import annotations

import ast
import os
import sysconfig
import warnings

from . import base

_SKIP_DIRS = {"__pycache__", "site-packages"}


def files():
    roots = [sysconfig.get_paths()["stdlib"], os.path.join(base.REPO, "peg_parser"), os.path.join(base.REPO, "pegen"),
             os.path.join(base.REPO, "tasks"), os.path.join(base.REPO, "tests")]
    out = []
    for root in roots:
        for d, dirs, fs in os.walk(root):
            dirs[:] = sorted(x for x in dirs if x not in _SKIP_DIRS)
            for f in sorted(fs):
                if f.endswith(".py"):
                    out.append(os.path.join(d, f))
    return out


def read(path):
    """text of a file CPython accepts, else None"""
    try:
        with open(path, "rb") as f:
            raw = f.read()
        if raw.startswith(b"\xef\xbb\xbf") or b"\0" in raw:
            return None
        text = raw.decode("utf-8")
    except (OSError, UnicodeDecodeError):
        return None
    if "\r" in text.replace("\r\n", ""):
        return None
    # a coding cookie other than utf-8 changes what CPython reads from the bytes
    head = text.split("\n", 2)[:2]
    for h in head:
        if "coding" in h and "utf-8" not in h.lower() and "utf8" not in h.lower() and h.lstrip().startswith("#"):
            return None
    return text


def parse_ok(text):
    try:
        with warnings.catch_warnings():
            warnings.simplefilter("ignore")
            return ast.parse(text)
    except (SyntaxError, ValueError, RecursionError, MemoryError):
        return None


def statements(text, tree=None):
    """top-level statements of a module as source strings (each ends with a newline)"""
    tree = tree or parse_ok(text)
    if tree is None:
        return []
    lines = text.splitlines(keepends=True)
    if sum(map(len, lines)) != len(text) or any("\f" in l or "\v" in l or "\x1c" in l for l in lines):
        from .compare import _cpython_lines

        lines = _cpython_lines(text)
    spans = []
    for node in tree.body:
        lo = node.lineno
        for d in getattr(node, "decorator_list", ()):
            lo = min(lo, d.lineno)
        hi = node.end_lineno
        if spans and lo <= spans[-1][1]:
            spans[-1][1] = max(hi, spans[-1][1])
        else:
            spans.append([lo, hi])
    out = []
    for lo, hi in spans:
        s = "".join(lines[lo - 1 : hi])
        if not s.endswith("\n"):
            s += "\n"
        out.append(s)
    return out
