"""Worker process: `python -m xv.worker <check module>`; JSON lines in (shards), JSON lines out."""
from __future__ import annotations

import importlib
import json
import os
import sys
import traceback


def main():
    modname = sys.argv[1]
    out = os.fdopen(os.dup(1), "w", encoding="utf-8")
    devnull = os.open(os.devnull, os.O_WRONLY)
    os.dup2(devnull, 1)  # anything the code under test prints (verbose mode) is discarded
    sys.stdout = open(os.devnull, "w")
    sys.setrecursionlimit(1000)
    from xv import base

    base.install_alarm()
    mod = importlib.import_module(f"xv.checks.{modname}")
    if hasattr(mod, "worker_init"):
        mod.worker_init()
    for line in sys.stdin:
        line = line.strip()
        if not line:
            continue
        shard = json.loads(line)
        try:
            res = mod.run_shard(shard)
        except BaseException as e:  # harness bug: report, never hide
            res = {"harness_error": "".join(traceback.format_exception(e))[-4000:]}
        out.write(json.dumps(res) + "\n")
        out.flush()


if __name__ == "__main__":
    main()
