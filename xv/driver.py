"""Entry point of every check: plan shards, run them in workers, merge, attribute, write evidence."""
from __future__ import annotations

import argparse
import importlib
import json
import os
import sys
import time

from . import base, pool
from .acc import Acc

FINDINGS_FILE = os.path.join(base.VERIF, "known_findings.json")


def load_findings():
    with open(FINDINGS_FILE, encoding="utf-8") as f:
        data = json.load(f)
    return {e["id"]: e for e in data["findings"]}


def write_replay(pid, v):
    d = os.path.join(base.VERIF, "replays", pid)
    os.makedirs(d, exist_ok=True)
    path = os.path.join(d, base.h64(v["kind"], v["case"]) + ".json")
    with open(path, "w", encoding="utf-8") as f:
        json.dump({"property": pid, **v}, f, indent=1, ensure_ascii=True, default=repr)
    return path


def main(argv=None):
    ap = argparse.ArgumentParser()
    ap.add_argument("prop")
    ap.add_argument("--tier", default=os.environ.get("VERIF_TIER", "quick"), choices=["quick", "thorough"])
    ap.add_argument("--replay")
    ap.add_argument("--jobs", type=int)
    args = ap.parse_args(argv)
    pid = args.prop.upper()
    modname = pid.lower()
    mod = importlib.import_module(f"xv.checks.{modname}")
    seed = base.seed_from_env()
    t0 = time.time()
    known = load_findings()

    if args.replay:
        with open(args.replay, encoding="utf-8") as f:
            rep = json.load(f)
        shards = [{"replay": rep["case"], "kind": rep.get("kind")}]
        extra = {}
    else:
        plan = mod.plan(args.tier, seed)
        shards = plan["shards"]
        extra = plan
    results = pool.run_shards(
        modname,
        shards,
        jobs=args.jobs,
        shard_timeout=extra.get("shard_timeout", 900.0 if args.tier == "quick" else 3600.0),
        env=extra.get("env"),
    )
    acc = Acc()
    harness_errors = []
    for shard, status, res in results:
        if status == "timeout":
            acc.inconc("shard-watchdog", shard)
        elif status == "died":
            acc.inconc("worker-died: " + str(res)[-300:], shard)
        elif "harness_error" in res:
            harness_errors.append(res["harness_error"])
        else:
            acc.merge(res)
    reasons = []
    if hasattr(mod, "finish") and not args.replay:
        reasons = list(mod.finish(acc, args.tier, seed) or [])
    if harness_errors:
        reasons.append("harness error in worker: " + harness_errors[0][-1500:])
    if acc.inconclusive:
        # watchdogs / dead workers are never violations; a handful among thousands of cases is tolerated
        # only if the check says so (tolerated_inconclusive), otherwise the run is inconclusive
        tol = getattr(mod, "TOLERATED_INCONCLUSIVE", 0)
        if len(acc.inconclusive) > tol or any(str(i["reason"]).startswith(("shard", "worker")) for i in acc.inconclusive):
            reasons.append(f"{acc.counters.get('inconclusive', len(acc.inconclusive))} inconclusive cases, e.g. {acc.inconclusive[0]}")

    # attribution of finding hits: only ids that are open in the committed file are honoured
    viol = list(acc.violations)
    lines = []
    for fid, f in sorted(acc.findings.items()):
        e = known.get(fid)
        if e and e.get("status") == "open" and pid in e.get("properties", [e.get("property")]):
            lines.append(f"KNOWN-FINDING: property={pid} {fid}: {e['mechanism']} ({f['n']} cases, e.g. {f['example']!r})")
        else:
            viol.append({"kind": f"unlisted-finding:{fid}", "case": {"example": f["example"]}, "detail": f"{f['n']} cases attributed to {fid}, which is not an open entry of known_findings.json"})

    status = "violated" if viol else ("inconclusive" if reasons else "held")
    wall = time.time() - t0
    if not args.replay:
        ev = {
            "property_id": pid,
            "tier": args.tier,
            "seed": seed,
            "level": mod.LEVEL,
            "coverage": {
                "evaluations": acc.evals,
                "distinct_nontrivial": len(acc.hashes),
                "rule": mod.RULE,
                "samples": acc.samples[:8] or ["<none>"],
                "counters": dict(sorted(acc.counters.items())),
                "observed_sets": {k: (sorted(v, key=repr) if len(v) <= 60 else {"size": len(v), "first": sorted(v, key=repr)[:40]}) for k, v in sorted(acc.sets.items())},
                "maxima": acc.maxima,
                "known_finding_hits": {k: v["n"] for k, v in sorted(acc.findings.items())},
                "inconclusive_reasons": reasons,
                "verdict": status,
                "repo": base.REPO,
            },
            "assumptions": list(getattr(mod, "ASSUMPTIONS", [])),
            "wall_s": round(wall, 2),
            "violations": len(viol),
        }
        if hasattr(mod, "evidence_extra"):
            ev["coverage"].update(mod.evidence_extra(acc, args.tier, seed))
        os.makedirs(os.path.join(base.VERIF, "evidence"), exist_ok=True)
        evpath = os.environ.get("VERIF_EVIDENCE_DIR") or os.path.join(base.VERIF, "evidence")
        with open(os.path.join(evpath, f"{pid}.json"), "w", encoding="utf-8") as f:
            json.dump(ev, f, indent=1, ensure_ascii=True, default=repr)
            f.write("\n")

    print(f"{pid} tier={args.tier} seed={seed}: {acc.evals} evaluations, {len(acc.hashes)} distinct non-trivial, "
          f"{len(viol)} violations, {sum(f['n'] for f in acc.findings.values())} known-finding hits, wall {wall:.1f}s")
    for k, v in sorted(acc.counters.items()):
        print(f"  {k}: {v}")
    for line in lines:
        print(line)
    if viol:
        seen = set()
        for v in viol[:20]:
            path = write_replay(pid, v)
            if path in seen:
                continue
            seen.add(path)
            print(f"VIOLATION property={pid} replay={path}")
            print(f"  kind={v['kind']} detail={json.dumps(v['detail'], default=repr)[:600]}")
            print(f"  case={json.dumps(v['case'], default=repr)[:400]}")
        return 1
    if reasons:
        for r in reasons:
            print(f"INCONCLUSIVE property={pid} reason={r}")
        return 2
    return 0


if __name__ == "__main__":
    sys.exit(main())
