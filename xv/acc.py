"""Accumulator a worker fills while running a shard; merged by the driver."""
from __future__ import annotations

MAX_VIOL = 12
MAX_SAMPLES = 6


class Acc:
    def __init__(self):
        self.evals = 0
        self.hashes = set()
        self.counters = {}
        self.sets = {}
        self.violations = []
        self.findings = {}
        self.inconclusive = []
        self.samples = []
        self.maxima = {}

    def count(self, name, n=1):
        self.counters[name] = self.counters.get(name, 0) + n

    def seen(self, name, item):
        self.sets.setdefault(name, set()).add(item)

    def maxi(self, name, v):
        if v > self.maxima.get(name, float("-inf")):
            self.maxima[name] = v

    def nontrivial(self, h):
        self.hashes.add(h)

    def sample(self, s):
        if len(self.samples) < MAX_SAMPLES:
            self.samples.append(s)

    def violation(self, kind, case, detail):
        """case: JSON-able dict sufficient to replay; detail: what was expected/observed"""
        self.count("violations")
        if len(self.violations) < MAX_VIOL:
            self.violations.append({"kind": kind, "case": case, "detail": detail})

    def finding(self, fid, example):
        f = self.findings.setdefault(fid, {"n": 0, "example": example})
        f["n"] += 1

    def inconc(self, reason, case=None):
        self.count("inconclusive")
        if len(self.inconclusive) < MAX_VIOL:
            self.inconclusive.append({"reason": reason, "case": case})

    def dump(self):
        return {
            "evals": self.evals,
            "hashes": sorted(self.hashes),
            "counters": self.counters,
            "sets": {k: sorted(v, key=repr) for k, v in self.sets.items()},
            "violations": self.violations,
            "findings": self.findings,
            "inconclusive": self.inconclusive,
            "samples": self.samples,
            "maxima": self.maxima,
        }

    def merge(self, d):
        self.evals += d.get("evals", 0)
        self.hashes.update(d.get("hashes", ()))
        for k, v in d.get("counters", {}).items():
            self.count(k, v)
        for k, v in d.get("sets", {}).items():
            self.sets.setdefault(k, set()).update(tuple(x) if isinstance(x, list) else x for x in v)
        for v in d.get("violations", ()):
            if len(self.violations) < 4 * MAX_VIOL:
                self.violations.append(v)
        for k, v in d.get("findings", {}).items():
            f = self.findings.setdefault(k, {"n": 0, "example": v["example"]})
            f["n"] += v["n"]
        for v in d.get("inconclusive", ()):
            if len(self.inconclusive) < 4 * MAX_VIOL:
                self.inconclusive.append(v)
        for s in d.get("samples", ()):
            if len(self.samples) < 12:
                self.samples.append(s)
        for k, v in d.get("maxima", {}).items():
            self.maxi(k, v)
