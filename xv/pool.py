"""Process pool built on plain subprocesses (a dying child must never hang the run)."""
from __future__ import annotations

import json
import os
import queue
import select
import subprocess
import sys
import threading
import time

from . import base


class _Worker:
    def __init__(self, modname, env):
        self.modname = modname
        self.env = env
        self.start()

    def start(self):
        self.p = subprocess.Popen(
            [base.PY, "-X", "utf8", "-m", "xv.worker", self.modname],
            stdin=subprocess.PIPE,
            stdout=subprocess.PIPE,
            stderr=subprocess.PIPE,
            cwd=base.VERIF,
            env=self.env,
        )
        self.buf = b""
        self.errbuf = []
        self._t = threading.Thread(target=self._drain, daemon=True)
        self._t.start()

    def _drain(self):
        p = self.p
        for line in p.stderr:
            if b"conda" in line:
                continue
            self.errbuf.append(line.decode("utf-8", "replace"))
            del self.errbuf[:-40]

    def kill(self):
        try:
            self.p.kill()
        except OSError:
            pass
        self.p.wait()

    def call(self, shard, timeout):
        """returns (status, result) with status ok|timeout|died"""
        try:
            self.p.stdin.write((json.dumps(shard) + "\n").encode())
            self.p.stdin.flush()
        except (BrokenPipeError, OSError):
            return "died", "".join(self.errbuf)
        deadline = time.monotonic() + timeout
        fd = self.p.stdout.fileno()
        while True:
            if b"\n" in self.buf:
                line, self.buf = self.buf.split(b"\n", 1)
                return "ok", json.loads(line)
            left = deadline - time.monotonic()
            if left <= 0:
                return "timeout", None
            r, _, _ = select.select([fd], [], [], min(left, 1.0))
            if r:
                chunk = os.read(fd, 1 << 20)
                if not chunk:
                    time.sleep(0.1)
                    return "died", "".join(self.errbuf)
                self.buf += chunk


def worker_env(extra=None):
    env = dict(os.environ)
    env.update(
        PYTHONHASHSEED="0",
        PYTHONDONTWRITEBYTECODE="1",
        PYTHONPATH=base.VERIF,
        VERIF_REPO=base.REPO,
        PYTHONWARNINGS="ignore",
    )
    if extra:
        env.update(extra)
    return env


def run_shards(modname, shards, *, jobs=None, shard_timeout=600.0, env=None, progress=None):
    """Run every shard in a worker; returns list of (shard, status, result)."""
    jobs = max(1, min(jobs or base.JOBS, len(shards)))
    q = queue.Queue()
    for s in shards:
        q.put(s)
    results = []
    lock = threading.Lock()
    wenv = worker_env(env)

    def loop():
        w = _Worker(modname, wenv)
        try:
            while True:
                try:
                    s = q.get_nowait()
                except queue.Empty:
                    return
                status, res = w.call(s, shard_timeout)
                if status != "ok":
                    w.kill()
                    w.start()
                with lock:
                    results.append((s, status, res))
                    if progress:
                        progress(len(results), len(shards))
        finally:
            try:
                w.p.stdin.close()
            except OSError:
                pass
            w.kill()

    threads = [threading.Thread(target=loop) for _ in range(jobs)]
    for t in threads:
        t.start()
    for t in threads:
        t.join()
    return results
