"""C08 - tokenizer is lossless: tokens tile the source with exact, ordered positions."""
from __future__ import annotations

import random
import re

from .. import base, corpus, gen_py, gen_xonsh, tokcheck
from ..acc import Acc

LEVEL = "exploration"
RULE = ("every input on which list(generate_tokens(text)) finishes is checked by the tiling monitor (token text == source slice, order, gaps, "
        "NEWLINE/INDENT/DEDENT/ENDMARKER discipline); inputs: hostile soup/mutants of Python+xonsh statements, corpus files and statements with "
        "CRLF/tab/form-feed/non-ASCII layout mutants; distinct non-trivial = distinct text with >= 3 tokens on which tokenizing finished")
ASSUMPTIONS = ["source lines are split as io.StringIO.readline does (at \\n only), which is what generate_tokens(str) uses"]


def worker_init():
    base.load_repo()


def _tok(src):
    from peg_parser.tokenize import generate_tokens

    return list(generate_tokens(src))


def classify(src, kinds):
    """narrow, input-only trigger of the end-of-input finding"""
    last = src.rsplit("\n", 1)[-1]
    if kinds <= {"logical-line-not-closed-by-newline", "dedent-inside-logical-line"}:
        if last.endswith("\r") or last.strip().startswith("#"):
            return "F08b"
    return None


_F08A_KINDS = {"overlap-or-disorder", "text-mismatch", "uncovered-text", "logical-line-not-closed-by-newline"}


def structure_violations(src, toks):
    """line structure of the stream (the part of "nothing is lost" that the tiling cannot see): a NEWLINE closes a logical line that has
    a token, never stands inside a bracket, and the end marker does not precede any character of the source"""
    out = []
    open_line = False
    depth = 0
    for t in toks:
        name = t.type.name
        if name in ("WS", "COMMENT", "NL", "INDENT", "DEDENT"):
            continue
        if name == "NEWLINE":
            if depth > 0:
                out.append(("newline-inside-bracket", f"NEWLINE at {t.start} with {depth} open bracket(s)"))
            elif not open_line:
                out.append(("newline-closes-nothing", f"NEWLINE at {t.start} after a line without tokens"))
            open_line = False
            continue
        if name == "ENDMARKER":
            n = src.count("\n")
            end = (n + 1, 0) if (not src or src.endswith("\n")) else (n + 1, len(src) - (src.rfind("\n") + 1))
            if tuple(t.start) < end:
                out.append(("endmarker-before-end-of-text", f"ENDMARKER at {t.start}, the text ends at {end}"))
            continue
        open_line = True
        if name == "OP":
            if t.string[-1:] in "([{":
                depth += 1
            elif t.string in (")", "]", "}"):
                depth = max(0, depth - 1)
    return out[:4]


def check_case(acc, src, origin):
    out = base.guarded(_tok, src)
    acc.count("inputs_" + origin)
    if out.kind == "timeout":
        acc.inconc("case-watchdog", {"src": src})
        return
    if out.kind != "tree":
        acc.count("tokenizer_rejects_" + out.cls())
        return
    toks = out.value
    acc.evals += 1
    acc.count("tokens", len(toks))
    for t in toks:
        acc.seen("token_types", t.type.name)
    if len(toks) >= 3:
        acc.nontrivial(base.h64(src))
    if acc.evals % 1499 == 1:
        acc.sample({"src": src[:120], "tokens": len(toks)})
    sv = structure_violations(src, toks)
    acc.count("line_structure_checks")
    if sv:
        acc.violation(sv[0][0], {"src": src, "origin": origin}, {"violations": [list(x) for x in sv]})
    mism, gaps = [], []
    v = tokcheck.tiling_violations(src, toks, mismatched_out=mism, gaps_out=gaps)
    if v:
        kinds = {k for k, _ in v}
        fid = classify(src, kinds)
        if fid is None and "text-mismatch" in kinds and kinds <= _F08A_KINDS and tokcheck.pending_string_symptom(src, toks, mism, gaps):
            fid = "F08a"
        if fid is None:
            # F10c (nested field with its own spec inside a format spec): counterfactual - with the inner spec removed the stream tiles
            from . import c10

            ptoks = gen_py.py_tokens(src)
            neutral = (c10.strip_deep_specs(src, ptoks) if ptoks else None) or re.sub(r"\{([^{}:'\"]+):[^{}'\"]*\{[^{}:'\"]*:[^{}'\"]*\{[^{}'\"]*\}[^{}'\"]*\}[^{}'\"]*\}", r"{\1}", src)
            if neutral == src:
                # text that CPython cannot tokenize: a field with a spec of its own after a ':' that is still open (spec context)
                neutral = re.sub(r"(:(?:[^{}\"]|\{\w+\})*)\{(\w+):(?:[^{}]|\{[^{}]*\})*\}", r"\1{\2}", src)
            if neutral != src:
                o2 = base.guarded(_tok, neutral)
                # no violation remains: the neutralised text tiles, or the tokenizer rejects it (then it is outside the property's domain)
                if o2.rejected:
                    fid = "F10c"
                elif o2.kind == "tree":
                    m2, g2 = [], []
                    v2 = tokcheck.tiling_violations(neutral, o2.value, mismatched_out=m2, gaps_out=g2)
                    if not v2:
                        fid = "F10c"
                    elif {k for k, _ in v2} <= _F08A_KINDS and tokcheck.pending_string_symptom(neutral, o2.value, m2, g2):
                        # both mechanisms in one input: what is left once the deep spec is removed is exactly the pending-string signature
                        fid = "F10c"
                        acc.finding("F08a", src[:100])
        if fid:
            acc.finding(fid, src[:100])
        else:
            acc.violation(v[0][0], {"src": src, "origin": origin}, {"violations": [list(map(str, x)) for x in v]})


MULTILINE_STRINGS = [
    'x = f"""abc\n{x}"""\n', "x = f'abc\\\n{y}'\n", "x = f'''{a}\n{b}\n'''\n", 'x = f"""{a:\n>10}"""\n', 'x = f"""\n{a}\n  {b}\nend"""\n', "x = '''a\n{b}\n'''\n",
    'x = f"""a\n\n{x}{y}\n}}{{\n"""\n', "x = rf'''\\\n{z}'''\n", 'x = """\n"""\n', "x = 'a\\\nb\\\nc'\n", 'x = f"{a}\\\n{b}"\n', "x = p'''/a\n/b'''\n", "f'''{\nx\n}'''\n", 'f"""{x:{\ny}}"""\n',
    # backslash-continued plain strings followed by more text (their CRLF variants are derived below)
    "\rx = 1\n", "if a:\n    \rb = 1\n", "x = 1\n\r\ny = 2\n",
    "x = 'abc\\\ndef'\ny\n", 'x = "a\\\nb" + c\nz = 1\n', "f('a\\\n', b'b\\\nc')\nw\n", "if a:\n    s = 'p\\\n    q'\n    t = 1\nu = 2\n", "x = ['a\\\nb',\n     'c']\ny\n",
]


def run_shard(shard):
    acc = Acc()
    if "replay" in shard:
        check_case(acc, shard["replay"]["src"], "replay")
        return acc.dump()
    rnd = random.Random(f"{shard['seed']}:{shard['kind']}:{shard.get('idx', 0)}")
    kind = shard["kind"]
    if kind == "fixed":
        for s in gen_xonsh.UNTERMINATED + gen_xonsh.XONSH_STMTS + gen_xonsh.PY_STMTS + gen_py.SEEDS:
            for v in (s, s + "\n", s.replace("\n", "\r\n"), "if a:\n    " + s.replace("\n", "\n    ") + "\n", s.rstrip("\n")):
                check_case(acc, v, "fixed")
    elif kind == "fstrings":
        from . import c10

        for s in c10.FIXED + MULTILINE_STRINGS:
            check_case(acc, s, "fstring-fixed")
            check_case(acc, s.replace("\n", "\r\n"), "fstring-fixed")
        for _ in range(shard["n"]):
            s = c10.gen_case(rnd)
            check_case(acc, s, "fstring-product")
            if rnd.random() < 0.3:
                check_case(acc, gen_xonsh.char_edits(rnd, s, 1), "fstring-mutant")
    elif kind == "soup":
        for _ in range(shard["n"]):
            check_case(acc, gen_xonsh.soup(rnd), "soup")
    elif kind == "mutate":
        pool = list(gen_xonsh.XONSH_STMTS + gen_xonsh.PY_STMTS + gen_py.SEEDS + gen_xonsh.UNTERMINATED)
        for _ in range(shard["n"]):
            s = rnd.choice(pool)
            if rnd.random() < 0.4:
                s += rnd.choice(pool)
            check_case(acc, gen_xonsh.char_edits(rnd, s), "mutate")
    elif kind == "files":
        for path in shard["files"]:
            text = corpus.read(path)
            if text is None:
                continue
            check_case(acc, text, "file")
            if rnd.random() < 0.5:
                check_case(acc, text.replace("\n", "\r\n"), "file-crlf")
            stmts = corpus.statements(text)
            rnd.shuffle(stmts)
            for s in stmts[: shard.get("per_file", 12)]:
                m = gen_py.layout_mutant(rnd, s)
                if m:
                    check_case(acc, m, "stmt-layout")
                check_case(acc, gen_xonsh.char_edits(rnd, s), "stmt-mutate")
    return acc.dump()


def plan(tier, seed):
    rnd = random.Random(seed)
    q = tier == "quick"
    shards = [{"kind": "fixed", "seed": seed}]
    for i in range(8 if q else 64):
        shards.append({"kind": "fstrings", "seed": seed, "idx": i, "n": 800 if q else 4000})
    for i in range(16 if q else 128):
        shards.append({"kind": "soup", "seed": seed, "idx": i, "n": 2500 if q else 6000})
        shards.append({"kind": "mutate", "seed": seed, "idx": i, "n": 2500 if q else 6000})
    files = corpus.files()
    rnd.shuffle(files)
    if q:
        files = files[:320]
    per = 10
    for i in range(0, len(files), per):
        shards.append({"kind": "files", "seed": seed, "idx": i, "files": files[i : i + per], "per_file": 12 if q else 40})
    return {"shards": shards}


def finish(acc, tier, seed):
    reasons = []
    need = 20000 if tier == "quick" else 400000
    if acc.evals < need:
        reasons.append(f"tiling monitor ran on only {acc.evals} finished token streams (< {need})")
    return reasons
