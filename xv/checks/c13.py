"""C13 - parsing is a pure function: deterministic, history-free and thread-safe."""
from __future__ import annotations

import ast
import os
import random
import sys
import threading
import time

from .. import base, gen_py, gen_xonsh
from ..acc import Acc

LEVEL = "exploration"
RULE = ("a pool of inputs (valid Python, every xonsh form, macros, path literals, f-strings, failing inputs of every error class) gets reference "
        "outcome signatures from processes that have never parsed anything else (fork after import); the same inputs are then parsed inside long "
        "random histories (with repetition), twice in a row, and concurrently in 8 threads under a 1 microsecond switch interval and under LINE-event "
        "yield injection; every in-history/in-thread signature must equal the reference; retained trees must not change and must not share nodes; "
        "distinct non-trivial = distinct (history id, position) evaluations of inputs with >= 2 characters")
ASSUMPTIONS = ["thread schedules are stressed, not enumerated", "signature = full ast.dump with positions, or (class, msg, line, col, end, text) of the error"]
TOLERATED_INCONCLUSIVE = 0

_st = {}


def near_limit_items():
    """inputs whose nesting sits just below / at the recursion limit and whose innermost token is the first of its kind: work that is done
    once per process (a pattern compiled on first use, a module imported lazily, a table filled on demand) costs stack only the first time.
    A pair of parentheses costs 38 frames and a unary minus 2, so 20 minuses on top of 21 and of 22 parentheses walk across the limit in
    steps of two frames whatever the exact base depth is"""
    out = []
    for lit in ("f'a'", "'s'", "rf'\\d{a}'", 'f"\\n"', '"\\N{BULLET}"', "`g*`", "$(echo! raw)", "\u00b5"):
        for d in (21, 22):
            for k in range(0, 20):
                out.append("v = " + "(" * d + "-" * k + lit + ")" * d + "\n")
    return out


def build_pool(seed, n):
    rnd = random.Random(f"pool:{seed}")
    pool = near_limit_items() + list(gen_xonsh.XONSH_STMTS + gen_xonsh.PY_STMTS + gen_xonsh.UNTERMINATED)
    pool += rnd.sample(gen_py.SEEDS, 60)
    extra = ["x = p'/a' / pf'{b}'\n", "f!(a, b)\nwith! c:\n    d e\nx = 1\n", "$(echo! a b)\ny = 2\n", "x = f'{a!r:>{w}}' 'tail'\n", "range?\n", "f!(]\n", "with! x:\n", "f!(a,, b)\n",
             "$[echo!]\n", "x = $(timeit!)\nz = 1\n", "f!()\n", "f!(x)g!(y))\n", "f!(a, (b)\n", "with! q: \n", "$(echo a.b?)\n", "$(lx?).split()\n", "x = [$(ax?) for a in $PATH]\n", "r = !(ls??)\n", "x = 'a' b'b'\n", "if a:\n  b\n c\n", "x = (\n", "x = '''a\n", "é = 'ü'\n", "try:\n    pass\nexcept* A:\n    pass\n", "type X[T] = list[T]\n"]
    pool += extra
    # outcomes that need the source lines again after the tokens are read (debug text, error text over token-less lines, byte columns)
    pool += ["x = f'{a = }'\n", "x = f\"\"\"{a =\n}\"\"\"\n", "f(a\n\n  b)\n", "\u00e9 = $HOME + '\u00fc'\n", "g!(a,\n \u00e9\u00e9\n)\n", "x = (1,\n# c\n\n 2 3)\n", "with! c:\n    a\n\n    b\n",
             "match!(a, b c)\n", "match !(x) + f(y)\n", "match!(a, @(x + y))\nassert w, 'm'\n", "f!(a,)\ng!(x)\n"]
    # literal families that share tokenizer/parser lookup keys (quote style, prefix letters) but differ in the other dimensions:
    # any module-level cache keyed too coarsely makes their outcome depend on which one was seen first
    bodies = ["\\N{BULLET}{a}", "{a}\\d+", "a{{b}}{c}", "{a:>{w}}", "\\n{a!r}", "{a}", "\\N{z}"]
    for q in ("'", '"', "'''", '"""'):
        for pre in ("f", "rf", "fr", "F", "Rf", "pf", "fp"):
            for body in bodies:
                pool.append(f"x = {pre}{q}{body}{q}\n")
        for pre in ("", "r", "b", "rb", "u", "p", "pr", "R", "Br"):
            for body in ("a\\n", "\\d", "\\x41" if "b" in pre.lower() else "\\N{BULLET}", "it"):
                pool.append(f"y = {pre}{q}{body}{q}\n")
    from .c14 import concat_items

    pool += concat_items()
    for sp in ("`a*`", "g`*.py`", "r`\\d+`", "p`x`", "f`{a}`", "@foo`bar`", "rp`q`"):
        pool.append(f"z = {sp}\n")
    for num in ("0x1F", "0o17", "0b11", "1_000", "1e5", "1.5j", "0X1f", "1E5", "1J"):
        pool.append(f"n = {num}\n")
    while len(pool) < n:
        s = rnd.choice(pool[:200])
        pool.append(gen_xonsh.char_edits(rnd, s, rnd.randint(1, 2)) if rnd.random() < 0.6 else s + rnd.choice(pool[:200]))
    seen = set()
    out = []
    for s in pool:
        if s not in seen and "\0" not in s:
            seen.add(s)
            out.append(s)
    return out[:n]


def worker_init():
    base.load_repo()


def observe(src):
    """one observed parse: through the monitored class, and from the same stack depth wherever it is called (reference child, history,
    worker thread) - see base.at_depth"""
    Mon = monitored_class()
    return base.at_depth(lambda: base.guarded(Mon.parse_string, src, mode="exec"))


def sig_of(src):
    out = observe(src)
    return base.h64(out.sig()), out.brief(), out


def reference(pool):
    """signature of every pool input from a process that never parsed anything else: fork after import"""
    refs = []
    for s in pool:
        r, w = os.pipe()
        pid = os.fork()
        if pid == 0:
            try:
                os.close(r)
                h, brief, _ = sig_of(s)
                os.write(w, (h + " " + brief[:100].replace("\n", " ")).encode("utf-8", "replace"))
            finally:
                os._exit(0)
        os.close(w)
        data = b""
        while True:
            chunk = os.read(r, 65536)
            if not chunk:
                break
            data += chunk
        os.close(r)
        os.waitpid(pid, 0)
        text = data.decode("utf-8", "replace")
        refs.append(text.split(" ", 1)[0] if data else None)
        _st.setdefault("ref_classes", {})
        cls = (text.split(" ", 2)[1].rstrip(":") if len(text.split(" ", 2)) > 1 else "none") if data else "no-reference"
        _st["ref_classes"][cls] = _st["ref_classes"].get(cls, 0) + 1
    return refs


# --- the interpreter's string-hash seed is not an input either -------------------------------------------------------------------------------
HASHSEED_ITEMS = ["import a\u00b2 as b\u00b3\n", "from m\u00b2 import a\u00b9 as b\u00b3, c\u00bd\n", "def f\u00b2(a\u00b9, *b\u00b3, c\u00b2=1, **d\u00b9): pass\n", "class A\u00b2(B\u00b3, k\u00b9=1): x\u00b2 = y\u00b3\n", "global a\u00b2, b\u00b3\n",
                  "match v:\n    case A\u00b2(k\u00b9=1, j\u00b3=b\u00b2) | {**r\u00b9}: pass\n", "try:\n    pass\nexcept* E\u00b2 as e\u00b3:\n    type X\u00b9[T\u00b2] = int\n", "x = {a\u00b2: b\u00b3 for c\u00b9 in d\u00bd}\n",
                  "f(a\u00b2=1, b\u00b3=2, **c\u00b9)\n", "with a\u00b2 as b\u00b3, c\u00b9 as d\u00bd: pass\n", "lambda a\u00b2, b\u00b3=c\u00b9: d\u00bd\n", "type X = int\ntry:\n    pass\nexcept* A:\n    pass\ndef f[T](): pass\n",
                  "x = 1 1\ny = 2 2\n", "def f(a, a\u00b2, *, a): pass\n", "import \u00e9.\u00b2 as \u00b3, \u00fc\u00b9\n", "nonlocal x\u00b2, y\u00b3\n", "x.a\u00b2.b\u00b3 = y.c\u00b9.d\u00bd\n", "\uff41 = \ufb01 + \u00b5\u00b2\n"]


# the same under a lowered py_version (several version notes are made; which one is reported must not depend on the seed)
VERSION_MARK = "\x00py_version=(3, 10)"
HASHSEED_VERSIONED = ["type X[T] = int\n", "class A[T]: pass\ntype X = int\n", "def f[T](): pass\ntype Y = T\ntry:\n    pass\nexcept* E:\n    pass\n", "try:\n    pass\nexcept* E:\n    type Z[T] = T\n",
                      "type X = int\nmatch!(a, b)\n", "class A[T]:\n    def m[U](self): pass\n    type V = U\n"]


def versioned_sig(s):
    """(signature, brief) of one input; an input ending in VERSION_MARK is parsed under py_version (3, 10)"""
    if s.endswith(VERSION_MARK):
        out = base.at_depth(lambda: base.guarded(monitored_class().parse_string, s[: -len(VERSION_MARK)], mode="exec", py_version=(3, 10)))
        return [base.h64(out.sig()), out.brief()]
    return list(sig_of(s)[:2])


def hashseed_shard(acc, pool, refs, seeds):
    """the same inputs in fresh interpreters started with other string-hash seeds (set and dict iteration order, str hashes)"""
    import json
    import subprocess

    from .. import pool as poolmod

    items = HASHSEED_ITEMS + [s + VERSION_MARK for s in HASHSEED_VERSIONED] + pool[:: max(1, len(pool) // 250)]
    want = {s: r for s, r in zip(pool, refs)}
    code = ("import sys, json\nfrom xv.checks import c13\nc13.worker_init()\n"
            "print(json.dumps([c13.versioned_sig(s) for s in json.load(sys.stdin)]))\n")
    results = {}
    for hs in seeds:
        p = subprocess.run([base.PY, "-c", code], input=json.dumps(items).encode(), capture_output=True, timeout=900, cwd=base.VERIF, env=poolmod.worker_env({"PYTHONHASHSEED": str(hs)}))
        if p.returncode != 0:
            acc.inconc("hash-seed child failed", {"hashseed": hs, "stderr": p.stderr.decode("utf-8", "replace")[-300:]})
            continue
        results[hs] = json.loads(p.stdout.decode().strip().splitlines()[-1])
        acc.count("hashseed_children")
    for i, s in enumerate(items):
        sigs = {hs: r[i][0] for hs, r in results.items()}
        if s in want and want[s] is not None:
            sigs["worker(0)"] = want[s]
        acc.evals += 1
        acc.count("hashseed_comparisons")
        acc.nontrivial(base.h64("hashseed", s))
        if len(set(sigs.values())) > 1:
            briefs = {str(hs): r[i][1][:120] for hs, r in results.items()}
            acc.violation("outcome-depends-on-hash-seed", {"src": s, "hashseeds": list(map(str, sigs))}, {"outcome_by_seed": briefs})


class _Registry:
    def __init__(self):
        self.parsers = []


def monitored_class():
    """subclass built through the public constructor path so that parser and token source of each call can be inspected afterwards"""
    if "mon" in _st:
        return _st["mon"]
    cls = base.load_repo()
    reg = _st["reg"] = threading.local()

    class Mon(cls):  # type: ignore[misc,valid-type]
        def __init__(self, tokenizer, **kw):
            super().__init__(tokenizer, **kw)
            reg.last = self

    _st["mon"] = Mon
    return Mon


def quiescence(acc, case):
    p = getattr(_st["reg"], "last", None)
    if p is None:
        acc.count("quiescence_monitor_missed")
        return
    t = p._tokenizer
    acc.count("quiescence_checks")
    bad = []
    if t._call_macro or t._with_macro or t._proc_macro:
        bad.append(f"macro flag left set: call={t._call_macro} with={t._with_macro} proc={t._proc_macro}")
    if t._stack:
        bad.append(f"push-back stack not empty: {t._stack!r:.80}")
    if getattr(p, "_path_token", None) is not None:  # (attribute removed from the repository by the path-prefix repair)
        bad.append("_path_token left set")
    if p.in_recursive_rule != 0:
        bad.append(f"in_recursive_rule={p.in_recursive_rule}")
    if p._level != 0:
        bad.append(f"_level={p._level}")
    if bad:
        acc.violation("not-quiescent-after-successful-parse", case, {"state": bad})


def node_ids(tree):
    ids = set()
    for n in ast.walk(tree):
        if isinstance(n, (ast.expr_context,)):
            continue
        ids.add(id(n))
        for f in n._fields:
            v = getattr(n, f, None)
            if isinstance(v, list):
                ids.add(id(v))
    return ids


def run_history(acc, pool, refs, rnd, length, hid):
    Mon = monitored_class()
    retained = []
    order = [rnd.randrange(len(pool)) for _ in range(length)]
    acc.seen("history_fingerprints", base.h64(order))
    for pos, i in enumerate(order):
        s = pool[i]
        case = {"history_seed": hid, "pos": pos, "src": s, "prefix": [pool[j] for j in order[max(0, pos - 3) : pos]]}
        out = observe(s)
        if out.kind == "timeout":
            acc.inconc("case-watchdog", case)
            continue
        acc.evals += 1
        if len(s) >= 2:
            acc.nontrivial(base.h64(hid, pos))
        h = base.h64(out.sig())
        if refs[i] is None:
            acc.count("no_reference")
        elif h != refs[i]:
            acc.violation("outcome-depends-on-history", case, {"in_history": out.brief()[:200], "reference_hash": refs[i], "observed_hash": h})
        if out.accepted:
            quiescence(acc, case)
            if rnd.random() < 0.08 and len(retained) < 40:
                retained.append((i, out.value, base.stable_dump(out.value), node_ids(out.value)))
        if rnd.random() < 0.1:
            out2 = observe(s)
            acc.count("immediate_repeats")
            if out2.kind != "timeout" and base.h64(out2.sig()) != h:
                acc.violation("repeat-differs", case, {"first": out.brief()[:120], "second": out2.brief()[:120]})
    # aliasing: retained trees unchanged and pairwise disjoint
    for k, (i, tree, dump, ids) in enumerate(retained):
        acc.count("retained_trees_rechecked")
        if base.stable_dump(tree) != dump:
            acc.violation("retained-tree-changed", {"history_seed": hid, "src": pool[i]}, {})
        for (j, _, _, ids2) in retained[k + 1 :]:
            shared = ids & ids2
            if shared:
                acc.violation("trees-share-mutable-nodes", {"history_seed": hid, "src": pool[i], "other": pool[j]}, {"shared_objects": len(shared)})
                break


def run_threads(acc, pool, refs, rnd, nthreads, per_thread, inject):
    Mon = monitored_class()
    orders = [[rnd.randrange(len(pool)) for _ in range(per_thread)] for _ in range(nthreads)]
    if inject:
        # the LINE callback is a Python frame of its own on top of the parser's stack: inputs at the recursion limit are left to the other runs
        # (also mutants and concatenations of those inputs, recognised by their nesting: anything nested 15 deep or more)
        from .c03 import _crude_depth

        near = set(near_limit_items())
        deep = {i for o in orders for i in o if pool[i] in near or _crude_depth(pool[i]) >= 15}
        acc.count("inputs_left_out_of_the_injection_run_for_their_nesting", len(deep))
        orders = [[i for i in o if i not in deep] for o in orders]
    results = [[] for _ in range(nthreads)]
    stats = {"switches": 0, "last": None, "points": set(), "events": 0}
    mon = sys.monitoring
    TOOL = 4
    if inject:
        import peg_parser.parser
        import peg_parser.subheader
        import peg_parser.tokenize
        import peg_parser.tokenizer

        from .. import clock

        codes = set()
        for m in (peg_parser.parser, peg_parser.subheader, peg_parser.tokenize, peg_parser.tokenizer):
            codes |= clock._code_objects(m)
        irnd = random.Random(rnd.random())

        def on_line(code, line):
            stats["events"] += 1
            tid = threading.get_ident()
            if stats["last"] is not None and stats["last"] != tid:
                stats["switches"] += 1
                if len(stats["points"]) < 5000:
                    stats["points"].add((code.co_name, line))
            stats["last"] = tid
            if irnd.random() < 0.02:
                time.sleep(0)

        mon.use_tool_id(TOOL, "xv-yield")
        mon.register_callback(TOOL, mon.events.LINE, on_line)
        for c in codes:
            mon.set_local_events(TOOL, c, mon.events.LINE)

    def work(k):
        for i in orders[k]:
            out = base.at_depth(lambda i=i: base_guard_threadsafe(Mon.parse_string, pool[i]))
            results[k].append((i, out))

    old = sys.getswitchinterval()
    sys.setswitchinterval(1e-6)
    try:
        ts = [threading.Thread(target=work, args=(k,)) for k in range(nthreads)]
        for t in ts:
            t.start()
        for t in ts:
            t.join()
    finally:
        sys.setswitchinterval(old)
        if inject:
            for c in codes:
                mon.set_local_events(TOOL, c, 0)
            mon.register_callback(TOOL, mon.events.LINE, None)
            mon.free_tool_id(TOOL)
    for k in range(nthreads):
        for pos, (i, out) in enumerate(results[k]):
            acc.evals += 1
            acc.nontrivial(base.h64("thr", inject, k, pos, rnd.random()))
            h = base.h64(out.sig())
            if refs[i] is not None and h != refs[i]:
                acc.violation("outcome-differs-under-threads", {"src": pool[i], "threads": nthreads, "inject": inject}, {"observed": out.brief()[:200]})
    acc.count("thread_parses" + ("_injected" if inject else ""), sum(len(r) for r in results))
    if inject:
        acc.count("observed_thread_switches", stats["switches"])
        acc.count("line_events", stats["events"])
        acc.maxi("distinct_switch_points", len(stats["points"]))


def base_guard_threadsafe(fn, src):
    """guarded() uses a SIGALRM timer, which only works in the main thread; worker threads classify without a watchdog
    (the shard watchdog of the driver still bounds the run)"""
    from peg_parser.tokenize import TokenError

    try:
        res = fn(src, mode="exec")
    except SyntaxError as e:
        return base.Outcome("syntax", exc=e)
    except TokenError as e:
        return base.Outcome("token", exc=e)
    except BaseException as e:  # noqa: BLE001
        return base.Outcome("other", exc=e)
    return base.Outcome("tree", value=res) if res is not None else base.Outcome("none")


def run_shard(shard):
    acc = Acc()
    if "replay" in shard:
        c = shard["replay"]
        if "hashseeds" in c:
            hashseed_shard(acc, [c["src"]], reference([c["src"]]), [int(h) for h in c["hashseeds"] if str(h).isdigit()])
            return acc.dump()
        pool = c.get("prefix", []) + [c["src"]]
        refs = reference(pool)
        Mon = monitored_class()
        for i, s in enumerate(pool):
            out = observe(s)
            acc.evals += 1
            if base.h64(out.sig()) != refs[i]:
                acc.violation("outcome-depends-on-history", {"src": s, "prefix": pool[:i]}, {"observed": out.brief()})
        return acc.dump()
    pool = build_pool(shard["seed"], shard["pool"])
    refs = reference(pool)
    acc.count("reference_signatures", sum(r is not None for r in refs))
    for k, v in _st.get("ref_classes", {}).items():
        acc.seen("reference_outcome_classes", k)
    _st["ref_classes"] = {}
    rnd = random.Random(f"{shard['seed']}:{shard['kind']}:{shard['idx']}")
    if shard["kind"] == "history":
        for h in range(shard["histories"]):
            run_history(acc, pool, refs, rnd, shard["length"], f"{shard['seed']}:{shard['idx']}:{h}")
            acc.count("histories")
    elif shard["kind"] == "threads":
        run_threads(acc, pool, refs, rnd, 8, shard["per_thread"], False)
    elif shard["kind"] == "inject":
        run_threads(acc, pool, refs, rnd, 4, shard["per_thread"], True)
    elif shard["kind"] == "hashseed":
        hashseed_shard(acc, pool, refs, shard["hashseeds"])
    acc.sample({"kind": shard["kind"], "pool_size": len(pool), "first_inputs": [p[:40] for p in pool[:3]]})
    return acc.dump()


def plan(tier, seed):
    q = tier == "quick"
    pool = 820 if q else 2200
    shards = []
    for i in range(10 if q else 50):
        shards.append({"kind": "history", "seed": seed, "idx": i, "pool": pool, "histories": 2 if q else 4, "length": 500})
    for i in range(4 if q else 24):
        shards.append({"kind": "threads", "seed": seed, "idx": i, "pool": pool, "per_thread": 150 if q else 400})
    for i in range(2 if q else 12):
        shards.append({"kind": "inject", "seed": seed, "idx": i, "pool": pool, "per_thread": 15 if q else 40})
    shards.append({"kind": "hashseed", "seed": seed, "idx": 0, "pool": pool, "hashseeds": [1, 2, 3, 4, 7] if q else [1, 2, 3, 4, 5, 7, 8, 9, 11, 13, 4242]})
    return {"shards": shards, "shard_timeout": 1800}


def finish(acc, tier, seed):
    reasons = []
    if acc.counters.get("quiescence_checks", 0) == 0:
        reasons.append("quiescence monitor never reached")
    if acc.counters.get("observed_thread_switches", 0) < 100:
        reasons.append("too few observed thread switches in the yield-injection run")
    if acc.counters.get("histories", 0) < (14 if tier == "quick" else 120):
        reasons.append("too few histories")
    return reasons
