"""C07 - macros receive the verbatim source text of their arguments/body."""
from __future__ import annotations

import ast
import io
import random
import re
import textwrap

from .. import base
from ..acc import Acc

LEVEL = "exploration"
RULE = ("inputs are assembled from known parts: call macros f!(a1, a2, ...) from argument texts drawn from a grammar of balanced, tokenizable text (any "
        "tokens incl. keywords/operators/xonsh constructs, three bracket kinds nested, commas inside brackets and strings, comments and newlines inside "
        "brackets; not necessarily valid Python); with-macros from block line lists (nested indentation, blank and comment lines, tabs, multi-line "
        "brackets/strings) or the one-line form; subprocess macros from raw rest texts; the constants in the call_macro / enter_macro / subproc_* nodes "
        "must equal the construction, and the statements placed after the macro must parse to what they parse to alone (line-shifted); an independent "
        "bracket/string-aware splitter cross-checks the generator; distinct non-trivial = distinct programs with >= 1 macro and >= 8 characters")
ASSUMPTIONS = ["a white-space-only call-macro argument between two commas must be passed as it is or refused like the empty one (never dropped); trailing blank text before ')' is a trailing comma",
               "blank lines between a with-macro block and the next statement belong to the block (pinned by tests/test_with_macros.py)"]

NAMES = ["x", "y1", "foo", "_a", "é", "import os", "if True", "lambda: 0", "not in", "x=10", "a b c", "1 + 2", "...", "->", "**kw", "*a", "a.b.c", "3.14", "0x1f", "yield", "for i in j"]
STRS = ['f"{x},{y}"', 'f","', 'f"{x},"', 'f"){x}("', 'f"]{x}["', "f'{x}}}{{'", 'f"{x:,}"', "f'''{a},\n{b}'''", "'s'", '"oh my, kadavule!"', "'a,b'", '"(["', "'''t,r\ni'''", "r'\\d,'", "b'x'", "f'{a}'", "'\\''", '"]"', "'#no comment'", "p'/a,b'"]
XONSH = ["$X", "$(ls -l)", "![a b]", "@(x)", "${x + y}", "$[ls, -l]", "@$(which xonsh)", "!(a, b)", "`a,b`", "g`*.py`", "x?", "a && b", "$(echo (a, b))" if False else "$(echo a,b)"]
OPS = [" + ", " - ", "*", " and ", " = ", ": ", " if ", " | ", ".", " ", "  ", " == ", " := ", " @ ", " // ", " \\\n ", " + \\\n"]


def arg_text(rnd, depth=0):
    """balanced, tokenizable text without a top-level comma"""
    n = rnd.randint(1, 3)
    parts = []
    for i in range(n):
        r = rnd.random()
        if r < 0.35:
            parts.append(rnd.choice(NAMES))
        elif r < 0.5:
            parts.append(rnd.choice(STRS))
        elif r < 0.62:
            parts.append(rnd.choice(XONSH))
        elif depth < 3:
            o, c = rnd.choice(["()", "[]", "{}"])
            k = rnd.randint(0, 3)
            items = [arg_text(rnd, depth + 1) for _ in range(k)]
            sep = rnd.choice([", ", ",", " , ", ",\n  ", ", # c\n ", ",\n\n"])
            inner = sep.join(items)
            if rnd.random() < 0.15 and items:
                inner += ","
            if rnd.random() < 0.1:
                inner = "\n" + inner + "\n"
            parts.append(o + inner + c)
        else:
            parts.append(rnd.choice(NAMES))
        if i < n - 1:
            parts.append(rnd.choice(OPS))
    return "".join(parts)


def split_args(text):
    """independent bracket/string-aware splitter (cross-check of the generator): top-level commas of the text inside f!( ... )"""
    out = []
    cur = []
    depth = 0
    i = 0
    n = len(text)
    while i < n:
        ch = text[i]
        if ch in "'\"":
            q = text[i : i + 3] if text[i : i + 3] in ("'''", '"""') else ch
            if len(q) == 1:
                # a quote that its line neither closes nor continues is an ordinary character of raw text (an apostrophe)
                j, closed = i + 1, False
                while j < n and text[j] != "\n":
                    if text[j] == q:
                        closed = True
                        break
                    j += 2 if text[j] == "\\" else 1
                if not closed and not (j < n + 1 and text[j - 1 : j + 1] == "\\\n"):
                    cur.append(ch)
                    i += 1
                    continue
            j = i + len(q)
            while j < n and not text.startswith(q, j):
                j += 2 if text[j] == "\\" else 1
            j += len(q)
            cur.append(text[i:j])
            i = j
            continue
        if ch == "`":
            j = text.index("`", i + 1) + 1
            cur.append(text[i:j])
            i = j
            continue
        if ch == "#":
            j = text.find("\n", i)
            j = n if j < 0 else j
            cur.append(text[i:j])
            i = j
            continue
        if ch in "([{":
            depth += 1
        elif ch in ")]}":
            depth -= 1
        if ch == "," and depth == 0:
            out.append("".join(cur))
            cur = []
        else:
            cur.append(ch)
        i += 1
    out.append("".join(cur))
    return out


FOLLOW = ["g!(x, y z)\n", "r = h!(p)\nt = h!(q, r)\n", "x = 1\n", "print(f!(y), 2)\n" if False else "print(y, 2)\n", "if a:\n    b = $(ls)\n", "def g():\n    return 3\n", "$Z = 'q'\n", "z = [1,\n     2]\n", "w = '''m\nl'''\n", "h!(k, l)\n" if False else "q = p'/x'\n"]


def worker_init():
    base.load_repo()


def _attr_chain(node):
    parts = []
    while isinstance(node, ast.Attribute):
        parts.append(node.attr)
        node = node.value
    if isinstance(node, ast.Name):
        parts.append(node.id)
        return ".".join(reversed(parts))
    return None


def macro_calls(tree, name):
    found = [n for n in ast.walk(tree) if isinstance(n, ast.Call) and _attr_chain(n.func) == name]
    found.sort(key=lambda n: (n.lineno, n.col_offset))
    return found


def check_follow(acc, case, tree, follow, nfollow_lines_before):
    """the statements after the macro parse to what they parse to alone"""
    if not follow:
        return True
    alone = base.parse(follow, "exec")
    if not alone.accepted:
        return True
    ast.increment_lineno(alone.value, nfollow_lines_before)
    want = [base.stable_dump(s) for s in alone.value.body]
    got = [base.stable_dump(s) for s in tree.body[len(tree.body) - len(want):]]
    acc.count("follow_checks")
    if want != got:
        acc.violation("code-after-macro-parsed-differently", case, {"expected": [w[:200] for w in want], "observed": [g[:200] for g in got]})
        return False
    return True


def _span_text(src, node):
    """the source text between a node's coordinates (columns are UTF-8 byte offsets, lines as the entry points read them)"""
    lines = [l.encode("utf-8", "surrogatepass") for l in io.StringIO(src, newline=None).readlines()]
    a, b = node.lineno - 1, node.end_lineno - 1
    if not (0 <= a <= b < len(lines) + 1):
        return None
    lines.append(b"")
    if a == b:
        raw = lines[a][node.col_offset : node.end_col_offset]
    else:
        raw = lines[a][node.col_offset :] + b"".join(lines[a + 1 : b]) + lines[b][: node.end_col_offset]
    return raw.decode("utf-8", "surrogatepass")


def run_case(acc, case):
    src = case["src"]
    out = base.parse(src, "exec")
    if out.kind == "timeout":
        acc.inconc("case-watchdog", case)
        return
    acc.evals += 1
    acc.count("kind_" + case["kind"])
    if len(src) >= 8:
        acc.nontrivial(base.h64(src))
    if acc.evals % 1499 == 1:
        acc.sample({"kind": case["kind"], "src": src[:140], "expected": case["expected"][:3]})
    if not out.accepted:
        fid = classify_reject(case, out)
        if fid and fid.startswith("ok:"):
            acc.count(fid[3:].replace("-", "_"))
        elif fid:
            acc.finding(fid, src[:80])
        else:
            acc.violation("macro-program-rejected", case, {"outcome": out.brief()})
        return
    tree = out.value
    if case["kind"] == "call":
        calls = macro_calls(tree, "__xonsh__.call_macro")
        obs = []
        for c in calls:
            tup = c.args[1] if len(c.args) > 1 else None
            obs.append([e.value if isinstance(e, ast.Constant) else ast.dump(e) for e in tup.elts] if isinstance(tup, ast.Tuple) else None)
        if obs[: len(case["expected"])] != case["expected"]:  # (the statements that follow may hold macros of their own: check_follow's business)
            acc.violation("macro-arguments-not-verbatim", case, {"expected": case["expected"], "observed": obs})
            return
        calls = calls[: len(case["expected"])]
        # the coordinates of an argument are those of its text
        lf = src.replace("\r\n", "\n").replace("\r", "\n")
        for c in calls:
            for e in (c.args[1].elts if len(c.args) > 1 and isinstance(c.args[1], ast.Tuple) else ()):
                if isinstance(e, ast.Constant) and isinstance(e.value, str):
                    acc.count("argument_span_checks")
                    got = _span_text(lf, e)
                    if got != e.value:
                        acc.violation("macro-argument-span-is-not-its-text", case, {"argument": e.value, "text_between_its_coordinates": got,
                                                                                       "span": [e.lineno, e.col_offset, e.end_lineno, e.end_col_offset]})
                        return
    elif case["kind"] in ("with", "with-oneline"):
        calls = macro_calls(tree, "__xonsh__.enter_macro")
        obs = [c.args[1].value if len(c.args) > 1 and isinstance(c.args[1], ast.Constant) else None for c in calls]
        if obs != case["expected"] and obs != case.get("alt_expected"):
            acc.violation("with-macro-body-not-verbatim", case, {"expected": case["expected"], "observed": obs})
            return
    elif case["kind"] == "subproc":
        calls = [n for n in ast.walk(tree) if isinstance(n, ast.Call) and (_attr_chain(n.func) or "").startswith("__xonsh__.subproc_")]
        calls.sort(key=lambda n: (n.lineno, n.col_offset))
        if case.get("outer"):
            # outer command: pre words, the starred inject call, then the post words (string literals verbatim with their quotes, $HOME as an env lookup)
            outer, calls = calls[0] if calls else None, calls[1:]
            exp_outer = case["outer"]["pre"] + ["*"] + ["$" if w[:1] == "$" else w for w in case["outer"]["post"]]
            obs_outer = [a.value if isinstance(a, ast.Constant) else "*" if isinstance(a, ast.Starred) else "$" for a in (outer.args if outer else [])]
            acc.count("subproc_macro_in_inject_bracket")
            if exp_outer != obs_outer:
                acc.violation("words-around-inject-macro-differ", case, {"expected": exp_outer, "observed": obs_outer})
                return
        obs = [[a.value if isinstance(a, ast.Constant) else ast.dump(a)[:80] for a in c.args] for c in calls[:1]]
        if obs != case["expected"]:
            rest = case.get("rest", "")
            if "\n" in rest and obs and obs[0] and obs[0][:-1] == case["expected"][0][:-1] and obs[0][-1] == rest.replace("\n", "").strip():
                acc.finding("F07b", src[:80])
                return
            if outside_whitelist(rest) and obs and obs[0] and obs[0][:-1] == case["expected"][0][:-1]:
                acc.finding("F07d", src[:80])  # only the raw text differs (a non-ASCII blank deleted, a backtick path turned into a call)
                return
            acc.violation("subprocess-macro-text-not-verbatim", case, {"expected": case["expected"], "observed": obs})
            return
    check_follow(acc, case, tree, case.get("follow", ""), case.get("lines_before_follow", 0))


def classify_reject(case, out):
    if case.get("ws_arg") and out.kind == "syntax" and "empty macro argument" in str(getattr(out.exc, "msg", "")):
        return "ok:ws-only-argument-refused"
    if case["kind"] == "with" and case.get("first_line_is_comment_or_blank"):
        return "F07a"
    if case["kind"] == "subproc" and out.kind == "syntax" and outside_whitelist(case.get("rest", "")):
        return "F07d"
    return None


_NESTED_GROUP = re.compile(r"[(\[][^()\[\]]*[(\[]")


def outside_whitelist(rest):
    """input side of finding F07d: the raw text holds something the token-by-token matcher `(cmd_group | any_cmd)*` has no case for - a brace,
    a bracket group inside another bracket group, `@(` / `@$(`, an f-string, a backtick path, a backslash, or a character that is neither
    ASCII nor part of an identifier"""
    if any(t in rest for t in ("{", "}", "@(", "@$(", "`", "\\")):
        return True
    if _NESTED_GROUP.search(rest) or re.search(r"(?i)\b[rp]?f[rp]?['\"]", rest):
        return True
    return any((not ch.isascii()) and not (ch.isalnum() or ch == "_") for ch in rest)


def gen_call(rnd):
    nmac = 1 if rnd.random() < 0.7 else 2
    expected = []
    macs = []
    ws_arg = False
    for _ in range(nmac):
        k = rnd.randint(1, 3)
        args = []
        for _ in range(k):
            core = arg_text(rnd)
            a = rnd.choice(["", "", " ", "  ", "\\\n", " \\\n  "]) + core + rnd.choice(["", "", " ", "\\\n", " \\\n\\\n "])
            args.append(a)
        if rnd.random() < 0.06:
            # an argument that is nothing but a backslash continuation is text, not white space: passed as it is
            args.insert(rnd.randint(0, len(args)), rnd.choice(["\\\n", "\\\n\\\n", " \\\n"]))
        if len(args) >= 2 and rnd.random() < 0.05:
            # an interior argument that is white space only: passed as it is or refused like the empty one, never dropped (the later ones would shift)
            args.insert(rnd.randint(1, len(args) - 1), rnd.choice([" ", "  ", "\t"]))
            ws_arg = True
        inside = ",".join(args)
        if split_args(inside) != args:
            return None  # generator self-check failed: never judge the code under test with a doubtful expectation
        if rnd.random() < 0.12 and not ws_arg and args[-1].strip():
            inside += rnd.choice([",", ", ", ",  "])  # a trailing comma (blank text before the closing bracket) adds no argument
        macs.append(rnd.choice(["f", "obj.m", "g[0]", "h()"]) + "!(" + inside + ")")
        expected.append(args)
    shape = rnd.random()
    if nmac == 2:
        stmt = rnd.choice(["{} + {}\n", "k({}, {})\n", "r = [{}, {}]\n", "{}; {}\n"]).format(*macs)
    elif shape < 0.4:
        stmt = macs[0] + "\n"
    elif shape < 0.55:
        stmt = "r = " + macs[0] + "\n"
    elif shape < 0.7:
        stmt = "g(" + macs[0] + ", b)\n"
    elif shape < 0.8:
        stmt = macs[0] + ".y\n"
    elif shape < 0.9:
        stmt = "if c:\n    v = " + macs[0] + "\n"
    else:
        stmt = macs[0] + "; t = 5\n"
    follow = rnd.choice(FOLLOW + [""])
    src = stmt + follow
    return {"kind": "call", "src": src, "expected": expected, "follow": follow, "lines_before_follow": stmt.count("\n"), "ws_arg": ws_arg}


BLOCK_LINES = ["ls -l", "x = 42", "echo $PATH", 'export PATH="yo:momma"', "pass", "a b c d", "if True:", "for x in range(6):", "with q as t:", "else:", "v = [1,\n     2,\n  3]",
               "s = '''a\n  b\n'''", "print('it''s')", "echo it's raw", 'say "hi there', "l'une\nl'autre", "don't # or can't", "x = f'{a} isn't", "$(raw (text) here)", "a = {1: 'x', 2: (3, 4)}", "import os; os.x", "not python at all !", "f!(x, y)", "# a comment", "", "q = \"#\" # c",
               # multi-line strings whose inner lines hold characters that str.splitlines() treats as line ends, and f-strings whose literal part ends a line
               "s = '''a\x0cb\n  c\n  d'''", "t = '''u\u2028v\nw'''", "r = '''x\x1cy\x85z\n'''", "a = f'''\n    foo\n'''", "b = f'''{k}\n  m\n''' + '''\n'''", "c = g(f'''\n{k}\n\n''')",
               # physical lines on which no token starts
               "d = 1 + \\\n\\\n2", "e = '''x\ny''' \\\n+ 1", "f = (1,\n\\\n2)",
               # a line that holds only a backslash continuation (also as the first line of the block)
               "\\\ng = 5", "\\\n\\\nh = 6", "\\\n  i = 7"]


def _lf_lines(text):
    """physical lines, split at line feeds only (keeping them)"""
    parts = text.split("\n")
    return [p + "\n" for p in parts[:-1]] + ([parts[-1]] if parts[-1] else [])


def gen_with(rnd):
    ctx = rnd.choice(["x", "ctx()", "a.b", "x as y", "open('f') as f"])
    if rnd.random() < 0.2:
        rest = rnd.choice(["pass", "x = 42; y = 12", 'export PATH="yo:momma"; echo $PATH', "[1,\n    2,\n    3]", "ls -l | grep x", "f!(a, b)", "  spaced   out  ",
                           'a = """q\nw""" + 1', 'a = """q\nw"""', "print(f'''a\n{b}\n''', 2)", "s = '''x\n  y\n z''' ; t = 3", "g(a,\n  '''m\nn''',\n  b)", "x = 'a\\\nb' + c",
                           'v = f"""{k}\n""" f"{j}"', "call((1,\n 2), '''t\nu'''\n)", "\\\n   a", "\\\n\\\n b = 1", "x = 1 \\\n  + 2"])
        if rnd.random() < 0.2:
            # nothing but a backslash continuation between the colon and the end of the header line
            rest = rnd.choice(["\\\n   a", "\\\nb = 2", "\\\n\t\\\n c"])
            stmt = f"with! {ctx}:" + rest + "\n"
            follow = rnd.choice(FOLLOW + [""])
            return {"kind": "with-oneline", "src": stmt + follow, "expected": [rest + "\n"], "follow": follow, "lines_before_follow": stmt.count("\n")}
        head = f"with! {ctx}:"
        stmt = head + " " + rest + "\n"
        follow = rnd.choice(FOLLOW + [""])
        return {"kind": "with-oneline", "src": stmt + follow, "expected": [" " + rest + "\n"], "follow": follow, "lines_before_follow": stmt.count("\n")}
    unit = rnd.choice(["    ", "  ", "\t", "        "])
    lines = []
    level = 1
    nlines = rnd.randint(1, 7)
    for i in range(nlines):
        l = rnd.choice(BLOCK_LINES)
        while unit == "\t" and l.startswith("\\"):
            # (a line holding only a tab and a backslash continuation is a TabError for CPython's own tokenizer as well)
            l = rnd.choice(BLOCK_LINES)
        if i == nlines - 1 and (l == "" or l.startswith("#") or l.endswith(":")):
            l = "done = 1"
        text = "\n".join((unit * level + part) if part else part for part in l.split("\n")) if "'''" not in l else unit * level + l
        lines.append(text + "\n" if l != "" else "\n")
        if l.endswith(":") and not l.startswith("#"):
            level += 1
        elif level > 1 and rnd.random() < 0.4:
            level -= 1
    first = lines[0].strip()
    block = "".join(lines)
    trailing = ""
    if rnd.random() < 0.15:
        trailing = "\n"
    tail_comment = rnd.choice(["# after the block\n", "# a\n\n# b\n", "#\n"]) if rnd.random() < 0.12 else ""
    follow = rnd.choice(FOLLOW)
    outer = rnd.random() < 0.25
    if not outer and unit in ("\t", "        ") and rnd.random() < 0.25:
        # a comment left of the block by *column* (a tab counts up to the next multiple of eight), though not by character count
        tail_comment = rnd.choice(["    # left of the block\n", "  # l\n\n    # m\n", "   # n\n"])
    # blanks or a comment after the colon do not change the form of the statement
    head = f"with! {ctx}:" + rnd.choice(["", "", "", "", " ", "  ", "\t", "  # c", " #c"]) + "\n"
    if outer:
        # macro nested in a block
        ind = "    "
        # comment lines at the with statement's own indentation (or further left) after the block are outside it
        tail = "".join(ind + l if l.strip() else l for l in _lf_lines(tail_comment)) if not trailing else ""
        src = "if cond:\n" + ind + head + "".join((ind + l) if l.strip() else l for l in _lf_lines(block)) + trailing + tail + follow
        expected_body = textwrap.dedent(block + trailing)
        lines_before = 1 + head.count("\n") + block.count("\n") + trailing.count("\n") + tail.count("\n")
        return {"kind": "with", "src": src, "expected": [expected_body], "follow": follow, "lines_before_follow": lines_before,
                "first_line_is_comment_or_blank": first == "" or first.startswith("#")}
    if rnd.random() < 0.12:
        # the block ends the input, with or without a final line end
        body = block if rnd.random() < 0.5 else block[:-1]
        return {"kind": "with", "src": head + body, "expected": [textwrap.dedent(block)], "alt_expected": [textwrap.dedent(block)[:-1]], "follow": "", "lines_before_follow": 0,
                "first_line_is_comment_or_blank": first == "" or first.startswith("#")}
    tail = tail_comment if not trailing else ""
    src = head + block + trailing + tail + follow
    return {"kind": "with", "src": src, "expected": [textwrap.dedent(block + trailing)], "follow": follow,
            "lines_before_follow": head.count("\n") + block.count("\n") + trailing.count("\n") + tail.count("\n"),
            "first_line_is_comment_or_blank": first == "" or first.startswith("#")}


REST = ["x + y", "bang! and more", "recurse() and more", "recurse[] and more", "recurse!() and more", "recurse$[] and more", "!!!", "(!)", "[!]", "!(ls)", '"!)"', "x", "",
        "if x: y", "import this", "a, b, c", "'q' \"w\"", "-n  --flag=1", "$HOME ${x} @(y)", "a   b\tc", "1 2 3.5 0x1f", "# not a comment" if False else "a:b", "{k: v}", "lambda: 0", "é ü", "a\n b",
        # outside the matcher's token whitelist (finding F07d)
        "it's", "a' b c", 'q" r', "isn't it's", "(don't)",
        "(a (b))", "[a [b]] c", "x @(y)", "@$(w z)", 'f"a{b}"', "`a*`", "a\\b", "€ x", "a\xa0b", "${x} y",
        # inside it
        "a $(b c) d", "(a) [b]", "a;b | c", "p'/x' r'\\d'", "a ? b??", "0x1f 1e5 1_0"]


def gen_subproc(rnd):
    op, cl = rnd.choice([("$(", ")"), ("$[", "]"), ("!(", ")"), ("![", "]")])
    cmd_words = [rnd.choice(["echo", "timeit", "ls", "git", "bash"])] + [rnd.choice(["-n", "-c", "sub", "x.py"]) for _ in range(rnd.randint(0, 2))]
    rest = rnd.choice(REST)
    if cl in rest and not (rest.count("(") == rest.count(")") and rest.count("[") == rest.count("]")):
        rest = "x"
    bang = rnd.choice(["!", " !", "! ", " ! "])
    if rest[:1] in ("(", "[") and not bang.endswith(" "):
        bang += " "  # `!(` and `![` are single tokens: the macro marker must be separated from an opening bracket
    body = " ".join(cmd_words) + bang + rest + rnd.choice(["", " "])
    if rnd.random() < 0.25 and rest.count("(") == rest.count(")") and "\n" not in rest and rest.count("'") % 2 == 0 and rest.count('"') % 2 == 0:
        # the macro inside an inject bracket of an ordinary command: the words after the inject bracket are split as usual again
        pre = [rnd.choice(["echo", "env", "xargs"])] + [rnd.choice(["-n", "a"]) for _ in range(rnd.randint(0, 1))]
        post = [rnd.choice(["-l", "c", "x.py", "'q r'", "$HOME"]) for _ in range(rnd.randint(0, 3))]
        form = op + " ".join(pre) + " @$(" + body + ")" + "".join(rnd.choice([" ", "  ", "\t"]) + w for w in post) + rnd.choice(["", " "]) + cl
        stmt = rnd.choice(["{}\n", "r = {}\n", "print({})\n"]).format(form)
        follow = rnd.choice(FOLLOW + [""])
        return {"kind": "subproc", "src": stmt + follow, "expected": [cmd_words + [rest.strip()]], "rest": rest, "follow": follow, "lines_before_follow": stmt.count("\n"),
                "outer": {"pre": pre, "post": post}}
    form = op + body + cl
    stmt = rnd.choice(["{}\n", "r = {}\n", "print({})\n"]).format(form)
    follow = rnd.choice(FOLLOW + [""])
    return {"kind": "subproc", "src": stmt + follow, "expected": [cmd_words + [rest.strip()]], "rest": rest, "follow": follow, "lines_before_follow": stmt.count("\n")}


# a quote that its line neither closes nor continues is an ordinary character of raw text (an apostrophe): (argument text, expected arguments)
APOSTROPHES = [
    ("it's", ["it's"]), ("it's, b", ["it's", " b"]), ("don't, can't", ["don't, can't"]), ("5 o'clock,\n 6 o'clock", ["5 o'clock", "\n 6 o'clock"]), ('say "hi', ['say "hi']), ("a, (it's), [b\"]", ["a", " (it's)", " [b\"]"]),
    ("l'une,\n l'autre, 'x'", ["l'une", "\n l'autre, 'x'"]), ("'", ["'"]), ("a', 'b', c'", ["a', 'b', c'"]), ("rb'x", ["rb'x"]), ("f(x'), y", ["f(x')", " y"]), ("x' # c\n", ["x' # c\n"]), ("'a' 'b, c", ["'a' 'b", " c"]),
    ("\"\"\" ', \"\"\", q", ["\"\"\" ', \"\"\"", " q"]), ("\"\"\"\n'\n\"\"\", '", ["\"\"\"\n'\n\"\"\"", " '"]), ("it's, \\\n fine", ["it's, \\\n fine"]),  # (a backslash at the end of the line continues the literal the quote began)
]


def apostrophe_cases():
    for inside, args in APOSTROPHES:
        for head, tail in (("f!(", ")\n"), ("r = obj.m!(", ")\n"), ("if c:\n    v = g[0]!(", ")\n"), ("k(h()!(", "), b)\n")):
            for follow in ("x = 1\n", "w = \"\"\"m\nl\"\"\"\n", "q = 'it''s'\n", ""):
                stmt = head + inside + tail
                yield {"kind": "call", "src": stmt + follow, "expected": [args], "follow": follow, "lines_before_follow": stmt.count("\n"), "ws_arg": False}


def crlf_variant(case):
    """the same program with CRLF line ends: the entry points read a source with universal newlines (as CPython and text-mode files do), so
    every text a macro receives is the one of the LF program"""
    c = dict(case)
    c["src"] = case["src"].replace("\n", "\r\n")
    c["crlf"] = True
    return c


def run_shard(shard):
    acc = Acc()
    if "replay" in shard:
        run_case(acc, shard["replay"])
        return acc.dump()
    rnd = random.Random(f"{shard['seed']}:{shard.get('idx', 0)}")
    if shard.get("idx", 0) == 0:
        for case in apostrophe_cases():
            acc.count("class_apostrophe_in_raw_text")
            run_case(acc, case)
    for _ in range(shard["n"]):
        r = rnd.random()
        case = gen_call(rnd) if r < 0.5 else gen_with(rnd) if r < 0.8 else gen_subproc(rnd)
        if case is None:
            acc.count("generator_selfcheck_rejected")
            continue
        if rnd.random() < 0.08 and "\r" not in case["src"] and "\\\n" not in case["src"]:
            case = crlf_variant(case)
        run_case(acc, case)
    return acc.dump()


def plan(tier, seed):
    q = tier == "quick"
    return {"shards": [{"seed": seed, "idx": i, "n": 1500 if q else 6000} for i in range(16 if q else 96)]}


def finish(acc, tier, seed):
    reasons = []
    need = 12000 if tier == "quick" else 300000
    if acc.evals < need:
        reasons.append(f"only {acc.evals} macro programs checked (< {need})")
    if acc.counters.get("follow_checks", 0) < acc.evals // 4:
        reasons.append("follow-statement monitor reached too few programs")
    return reasons
