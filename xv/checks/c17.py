"""C17 - the parser generator implements PEG semantics for every grammar."""
from __future__ import annotations

import io
import itertools
import os
import random
import shutil
import tempfile

from .. import base
from ..acc import Acc
from ..pegref import (FAIL, Alt, Cls, Cut, Forced, ForcedFail, Gather, Group, Interp, Lit, Named, NegLA, Opt, Plus, PosLA, Ref, Rule, Star,
                      analyse, keywords, lift_groups, p_grammar)

LEVEL = "translation_validation"
RULE = ("random well-formed grammars (2-6 rules, 1-4 alternatives, depth <= 3; every construct of the notation incl. direct and indirect left "
        "recursion, memo flags, groups with actions, gathers, lookaheads, cuts, forced tokens) are printed to .gram text, run through the repository's "
        "meta-parser and XonshParserGenerator, and the generated parser is compared with an independent PEG interpreter on ALL token strings up to a "
        "length bound plus strings derived from the grammar (+0-2 token edits): accept/fail/forced-error, value and end position; the comparison is "
        "repeated with all memo flags flipped and with every group lifted into a named rule; a left-fold oracle checks the common left-recursive "
        "operator shape; a case = (grammar, token string); distinct non-trivial = distinct (grammar, string) pairs with a non-empty string")
ASSUMPTIONS = ["well-formedness side conditions of the property are enforced by construction and re-checked by an own nullable/left-recursion analysis",
               
               "reference semantics of left recursion = seed growing at the smallest-named rule of the cycle"]

SYMS = {"a": ("NAME", "a"), "b": ("NAME", "b"), "x": ("NAME", "x"), "1": ("NUMBER", "1"), "+": ("OP", "+"),
        # a multi-character keyword candidate and a name that is a proper substring of it
        "k": ("NAME", "if"), "i": ("NAME", "i")}
CORE_SYMS = "abx1+"


def worker_init():
    base.load_repo()


def mk_tokens(word):
    from peg_parser.tokenize import Token, TokenInfo

    out = []
    col = 0
    line = " ".join(word) + "\n"
    for ch in word:
        ty, s = SYMS[ch]
        out.append(TokenInfo(Token[ty], s, (1, col), (1, col + 1), line))
        col += 2
    out.append(TokenInfo(Token.ENDMARKER, "", (2, 0), (2, 0), ""))
    return out


class G:
    """random well-formed grammar over {'a','b','+', NAME, NUMBER}"""

    def __init__(self, rnd, nrules):
        self.rnd = rnd
        self.n = nrules
        self.counter = itertools.count()
        # the hard (single-quoted) literals of this grammar: palettes with 0, 1, 2 and 3 alphabetic literals, so that the generated
        # keyword table has every small size (a one-element table is a classic tuple/str mix-up)
        self.hard = rnd.choice([["a", "b", "+"], ["a", "b", "+"], ["if", "+"], ["+"], ["a", "+"], ["if", "a", "+"], ["if", "a", "b", "+"], ["b", "+", "+"]])

    def leaf(self):
        r = self.rnd.random()
        if r < 0.5:
            return Lit(self.rnd.choice(self.hard))
        if r < 0.6:
            return Lit(self.rnd.choice(["a", "b", "if"]), soft=True)
        if r < 0.8:
            return Cls("NAME")
        return Cls("NUMBER")

    def nonnull_atom(self, i, depth):
        r = self.rnd.random()
        later = list(range(i + 1, self.n))
        if r < 0.5 or depth >= 2:
            return self.leaf()
        if r < 0.54:
            # a forced token as the only item of an action-free alternative: the generator inlines such alternatives into helper calls
            # (seq_alts, repeated, gathered, lookaheads), where the token must still be asked for lazily
            alts = [Alt((Named(None, Forced(Lit("+"))),), None)]
            if self.rnd.random() < 0.5:
                alts.insert(0, Alt((Named(None, self.leaf()),), None))
            return Group(tuple(alts))
        if r < 0.72 and later:
            return Ref(f"r{self.rnd.choice(later)}")
        return Group(tuple(self.alt(i, depth + 1, in_group=True) for _ in range(self.rnd.randint(1, 3))))

    def item(self, i, depth, consumed):
        rnd = self.rnd
        r = rnd.random()
        if r < 0.38:
            return self.nonnull_atom(i, depth), True
        if r < 0.40:
            return Opt(Plus(self.leaf())), False  # finding F17c
        if r < 0.48:
            return Opt(self.nonnull_atom(i, depth)), False
        if r < 0.56:
            return Star(self.nonnull_atom(i, depth)), False
        if r < 0.64:
            return Plus(self.nonnull_atom(i, depth)), True
        if r < 0.72:
            return Gather(Lit(rnd.choice("+b")), self.nonnull_atom(i, depth)), True
        if r < 0.78:
            return PosLA(self.nonnull_atom(i, depth)), False
        if r < 0.84:
            return NegLA(self.nonnull_atom(i, depth)), False
        if r < 0.88:
            return Cut(), False
        if r < 0.92:
            return Forced(Lit(rnd.choice(self.hard))), True  # (also an alphabetic literal: '&&' may be the only use of a keyword)
        if consumed:
            return Ref(f"r{rnd.randint(0, self.n - 1)}"), True  # back reference after consumption: right recursion
        return self.nonnull_atom(i, depth), True

    def alt(self, i, depth, in_group=False, leftrec=None):
        rnd = self.rnd
        items = []
        used = []
        names = iter("abcdefgh")
        consumed = False
        if leftrec is not None:
            nm = next(names)
            items.append(Named(nm, Ref(leftrec)))
            used.append(nm)
            items.append(Named(None, self.leaf()))
            consumed = True
        k = rnd.randint(1, 3)
        for idx in range(k):
            if idx == 0 and leftrec is None:
                it, cons = self.nonnull_atom(i, depth), True  # every alternative starts with a consuming, non-nullable item
            else:
                it, cons = self.item(i, depth, consumed)
            nm = None
            if type(it) not in (PosLA, NegLA, Cut, Forced) and rnd.random() < 0.8:
                nm = next(names)
                used.append(nm)
            items.append(Named(nm, it))
            consumed = consumed or cons
        tag = f"A{next(self.counter)}"
        if len(items) == 1 and leftrec is None and rnd.random() < 0.3 and type(items[0].item) in (Lit, Cls, Ref, Plus, Gather, Group):
            return Alt((Named(None, items[0].item),), None)  # pass-through default action
        return Alt(tuple(items), "('%s', %s)" % (tag, ", ".join(used)) if used else "('%s',)" % tag)

    def build(self):
        rnd = self.rnd
        rules = [None] * self.n
        # optional indirect left recursion: a 2-cycle r_i -> r_j -> r_i (i < j)
        cyc = None
        if self.n >= 3 and rnd.random() < 0.25:
            i = rnd.randrange(0, self.n - 1)
            j = rnd.randrange(i + 1, self.n)
            cyc = (i, j)
        for i in reversed(range(self.n)):
            alts = [self.alt(i, 0) for _ in range(rnd.randint(1, 3))]
            if cyc and i == cyc[0]:
                alts.insert(0, self.alt(i, 0, leftrec=f"r{cyc[1]}"))
            elif cyc and i == cyc[1]:
                alts.insert(0, self.alt(i, 0, leftrec=f"r{cyc[0]}"))
            elif rnd.random() < 0.35:
                alts.insert(0 if rnd.random() < 0.7 else rnd.randrange(len(alts) + 1), self.alt(i, 0, leftrec=f"r{i}"))
            if rnd.random() < 0.12:
                # a rule that is a single group with an outer action (the shape Rule.flatten used to mangle)
                inner = Group(tuple(self.alt(i, 1, in_group=True) for _ in range(rnd.randint(1, 2))))
                alts = [Alt((Named("a", inner),), "('W%d', a)" % next(self.counter))]
            rules[i] = Rule(f"r{i}", tuple(alts), memo=rnd.random() < 0.4)
        start = Rule("start", (Alt((Named("a", Ref("r0")), Named(None, Cls("ENDMARKER"))), "('S', a)"),))
        return [start] + rules


def well_formed(rules):
    """re-check of the property's side conditions with the independent analysis"""
    nullable, graph, leftrec, leader = analyse(rules)
    rmap = {r.name: r for r in rules}

    def item_ok(it):
        t = type(it)
        if t in (Star, Plus):
            inner = it.item
            if _nullable_item(inner, nullable):
                return False
            return item_ok(inner)
        if t is Gather:
            return not _nullable_item(it.item, nullable) and item_ok(it.item) and item_ok(it.sep)
        if t in (Opt, PosLA, NegLA, Forced):
            return item_ok(it.item)
        if t is Group:
            return all(all(item_ok(n.item) for n in a.items) for a in it.alts)
        return True

    for r in rules:
        for a in r.alts:
            if not all(item_ok(n.item) for n in a.items):
                return False
    # left recursion only as the first item of an alternative (never behind a nullable prefix), cycles of length <= 2
    for n in leftrec:
        for a in rmap[n].alts:
            for k, it in enumerate(a.items):
                if k > 0 and type(it.item) is Ref and it.item.name in leftrec and leader.get(it.item.name) == leader[n]:
                    if all(_nullable_item(p.item, nullable) for p in a.items[:k]):
                        return False
    # every strongly connected component of the first-graph must have a leader; the harness only generates the two shapes whose
    # semantics do not depend on the choice of leader: a single self-loop, or a pure 2-cycle
    for n in leftrec:
        members = {m for m in leftrec if leader[m] == leader[n]}
        edges = {(u, v) for u in members for v in graph[u] if v in members}
        if len(members) == 1:
            ok = edges == {(n, n)}
        elif len(members) == 2:
            a, b = sorted(members)
            ok = edges == {(a, b), (b, a)}
        else:
            ok = False
        if not ok:
            return False
    return not any(nullable.values())


def _nullable_item(it, nullable):
    t = type(it)
    if t in (Opt, Star, PosLA, NegLA, Forced, Cut):
        return True
    if t is Ref:
        return nullable[it.name]
    if t is Group:
        return any(all(_nullable_item(n.item, nullable) for n in a.items) for a in it.alts)
    return False


def derive(rnd, rules, kw, limit=14):
    """a token string derived from the start rule through the harness's own representation"""
    rmap = {r.name: r for r in rules}
    out = []

    def gen_item(it, depth):
        t = type(it)
        if len(out) > limit:
            return
        if t is Lit:
            out.append("k" if it.s == "if" else it.s)
        elif t is Cls:
            if it.name == "NAME":
                cands = [c for c in "xabi" if SYMS[c][1] not in kw] + ([] if "if" in kw else ["k"])
                out.append(rnd.choice(cands) if cands else "x")
            elif it.name == "NUMBER":
                out.append("1")
        elif t is Ref:
            gen_rule(rmap[it.name], depth + 1)
        elif t is Group:
            gen_alt(rnd.choice(it.alts), depth + 1)
        elif t is Opt:
            if rnd.random() < 0.5:
                gen_item(it.item, depth)
        elif t is Star:
            for _ in range(rnd.randint(0, 2)):
                gen_item(it.item, depth)
        elif t is Plus:
            for _ in range(rnd.randint(1, 2)):
                gen_item(it.item, depth)
        elif t is Gather:
            gen_item(it.item, depth)
            for _ in range(rnd.randint(0, 2)):
                gen_item(it.sep, depth)
                gen_item(it.item, depth)
        elif t is Forced:
            gen_item(it.item, depth)

    def gen_alt(a, depth):
        for n in a.items:
            gen_item(n.item, depth)

    def gen_rule(r, depth):
        alts = r.alts
        if depth > 5:
            alts = [a for a in alts if not any(type(n.item) is Ref for n in a.items)] or alts
        gen_alt(rnd.choice(alts), depth)

    gen_rule(rmap["start"], 0)
    word = [c for c in out if c in SYMS][:limit]
    for _ in range(rnd.choice([0, 0, 0, 0, 1, 2])):
        if word and rnd.random() < 0.5:
            del word[rnd.randrange(len(word))]
        else:
            word.insert(rnd.randrange(len(word) + 1), rnd.choice("abx1+ki"))
    return "".join(word)


def gen_parser(text, scratch):
    """the repository's real pipeline: meta-parser -> grammar -> XonshParserGenerator -> module source -> class"""
    from pegen.build import build_parser
    from tasks.generator import XonshParserGenerator

    gf = os.path.join(scratch, "g.gram")
    with open(gf, "w") as f:
        f.write(text)
    grammar, _, _ = build_parser(gf)
    out = io.StringIO()
    gen = XonshParserGenerator(grammar, out)
    gen.generate(gf)
    ns = {}
    exec(compile(out.getvalue(), "<generated>", "exec"), ns)  # noqa: S102
    return ns["GenParser"], out.getvalue()


def run_gen(cls, toks):
    from peg_parser.tokenizer import Tokenizer

    tk = Tokenizer(iter(toks))
    p = cls(tk)
    out = base.guarded(p.start, timeout=20)
    if out.kind == "tree":
        return ("ok", out.value, tk.mark())
    if out.kind == "none":
        return ("fail",)
    if out.kind == "syntax":
        return ("forced",)
    if out.kind == "timeout":
        return ("TIMEOUT",)
    return ("EXC", out.brief()[:120])


def run_ref(rules, toks, kw):
    it = Interp(rules, toks, kw)
    try:
        r = it.parse_rule("start", 0)
        return ("fail",) if r is FAIL else ("ok", r[0], r[1])
    except ForcedFail:
        return ("forced",)
    except RecursionError:
        return ("REF-RECURSION",)


def flip_memo(rules):
    return [Rule(r.name, r.alts, (not r.memo) if r.name != "start" else r.memo) for r in rules]


def check_grammar(acc, rules, words, scratch, origin, variants=True):
    text = p_grammar(rules)
    case0 = {"grammar": text, "origin": origin}
    if not well_formed(rules):
        acc.count("skipped_not_well_formed")
        return
    kw = keywords(rules)
    try:
        cls, code = gen_parser(text, scratch)
    except BaseException as e:  # noqa: BLE001 - a generator crash on a well-formed grammar is a violation
        acc.violation("generator-crashed-on-well-formed-grammar", case0, {"error": f"{type(e).__name__}: {str(e)[:300]}"})
        return
    acc.count("grammars")
    for feat in _features(rules):
        acc.seen("features", feat)
    alt_parsers = []
    if variants:
        for name, rr in (("memo-flipped", flip_memo(rules)), ("groups-lifted", lift_groups(rules))):
            try:
                alt_parsers.append((name, gen_parser(p_grammar(rr), scratch)[0]))
            except BaseException as e:  # noqa: BLE001
                acc.violation("generator-crashed-on-variant", {**case0, "variant": name}, {"error": f"{type(e).__name__}: {str(e)[:300]}"})
    bad = 0
    has_opt_plus = _has_opt_plus(rules)
    for w in words:
        toks = mk_tokens(w)
        a = run_gen(cls, toks)
        b = run_ref(rules, toks, kw)
        acc.evals += 1
        acc.count("result_" + a[0])
        if w:
            acc.nontrivial(base.h64(text, w))
        if a[0] == "TIMEOUT" or b[0] == "REF-RECURSION":
            acc.inconc("case-watchdog" if a[0] == "TIMEOUT" else "reference recursion", {"grammar": text, "word": w})
            continue
        if a != b and has_opt_plus and _empty_as_none(a) == _empty_as_none(b):
            acc.finding("F17c", text[-160:])  # an optional one-or-more that matches nothing yields [] where PEG semantics give None
            continue
        if a != b:
            bad += 1
            if bad <= 2:
                acc.violation("generated-parser-differs-from-peg-semantics", {**case0, "word": w}, {"generated": repr(a)[:300], "reference": repr(b)[:300]})
            continue
        for name, acls in alt_parsers:
            c = run_gen(acls, toks)
            acc.count("variant_runs")
            if c != a and c[0] != "TIMEOUT":
                bad += 1
                if bad <= 2:
                    acc.violation("result-changes-under-" + name, {**case0, "word": w, "variant": name}, {"original": repr(a)[:300], "variant": repr(c)[:300]})
    if len(acc.samples) < 4:
        acc.sample({"grammar": text[text.index("start"):][:400], "words": len(words), "accepted": acc.counters.get("result_ok", 0)})


# --- near-duplicate groups: what the generator's helper-rule cache could confuse --------------------------------------------------------------
# The generator emits one helper rule per parenthesised group and re-uses a helper for a group it has "seen before". Random grammars never
# repeat a group (every action carries a fresh tag), so this family makes them: a group of the grammar is copied, with the same names and
# the same action, into a new alternative of the same rule - once unchanged and once with exactly one node altered (* <-> +, ? dropped,
# & <-> !, a literal or token class exchanged, soft <-> hard, gather separator exchanged, && dropped, ~ dropped).
def _one_point_variants(it, palette):
    """all copies of the item with exactly one node altered"""
    t = type(it)
    out = []
    if t is Star:
        out.append(Plus(it.item))
    elif t is Plus:
        out.append(Star(it.item))
    elif t is Opt:
        out.append(it.item)
    elif t is PosLA:
        out.append(NegLA(it.item))
    elif t is NegLA:
        out.append(PosLA(it.item))
    elif t is Forced:
        out.append(it.item)
    elif t is Lit:
        out.extend(Lit(s, it.soft) for s in palette if s != it.s and (not it.soft or s.isalpha()))
        if it.s.isalpha():
            out.append(Lit(it.s, not it.soft))
    elif t is Cls and it.name in ("NAME", "NUMBER"):
        out.append(Cls("NUMBER" if it.name == "NAME" else "NAME"))
    elif t is Gather:
        out.extend(Gather(v, it.item) for v in _one_point_variants(it.sep, palette))
    if t in (Star, Plus, Opt, PosLA, NegLA, Forced):
        out.extend(t(v) for v in _one_point_variants(it.item, palette))
    elif t is Gather:
        out.extend(Gather(it.sep, v) for v in _one_point_variants(it.item, palette))
    elif t is Group:
        for ai, a in enumerate(it.alts):
            for ni, n in enumerate(a.items):
                for v in _one_point_variants(n.item, palette):
                    na = Alt(a.items[:ni] + (Named(n.name, v),) + a.items[ni + 1:], a.action)
                    out.append(Group(it.alts[:ai] + (na,) + it.alts[ai + 1:]))
                if type(n.item) is Cut:
                    na = Alt(a.items[:ni] + a.items[ni + 1:], a.action)
                    if na.items:
                        out.append(Group(it.alts[:ai] + (na,) + it.alts[ai + 1:]))
    return out


def _groups_of(it):
    t = type(it)
    if t is Group:
        yield it
        for a in it.alts:
            for n in a.items:
                yield from _groups_of(n.item)
    elif t in (Opt, Star, Plus, PosLA, NegLA, Forced):
        yield from _groups_of(it.item)
    elif t is Gather:
        yield from _groups_of(it.item)


def with_near_duplicate(rnd, rules, palette):
    """the grammar with one of its groups used again (same rule, behind a fresh literal): unchanged and with one node altered; or None"""
    sites = [(ri, g) for ri, r in enumerate(rules) if r.name != "start" for a in r.alts for n in a.items for g in _groups_of(n.item)]
    rnd.shuffle(sites)
    for ri, g in sites:
        vs = _one_point_variants(g, palette)
        if not vs:
            continue
        v = rnd.choice(vs)
        r = rules[ri]
        extra = (Alt((Named(None, Lit("x")), Named("a", v)), "('D1', a)"), Alt((Named(None, Lit("i")), Named("a", g)), "('D2', a)"))
        if rnd.random() < 0.5:
            extra = extra[::-1]
        new = list(rules)
        new[ri] = Rule(r.name, tuple(r.alts) + extra, r.memo)
        if well_formed(new):
            return new
    return None


def _empty_as_none(v):
    if isinstance(v, list):
        return None if not v else [_empty_as_none(x) for x in v]
    if isinstance(v, tuple):
        return tuple(_empty_as_none(x) for x in v)
    return v


def _has_opt_plus(rules):
    """input side of finding F17c: some optional wraps a one-or-more repetition directly (`[x+]`)"""
    found = []

    def walk(n):
        if isinstance(n, Opt) and isinstance(n.item, Plus):
            found.append(n)
        for f in getattr(n, "__dataclass_fields__", {}):
            v = getattr(n, f)
            for x in v if isinstance(v, (list, tuple)) else [v]:
                if hasattr(x, "__dataclass_fields__"):
                    walk(x)

    for r in rules:
        walk(r)
    return bool(found)


def _features(rules):
    out = set()

    def walk(it):
        out.add(type(it).__name__)
        t = type(it)
        if t in (Opt, Star, Plus, PosLA, NegLA, Forced):
            walk(it.item)
        elif t is Gather:
            walk(it.sep)
            walk(it.item)
        elif t is Group:
            for a in it.alts:
                if len(it.alts) == 1 and len(a.items) == 1 and a.action:
                    out.add("one-item-group-with-action")
                for n in a.items:
                    walk(n.item)

    _, _, leftrec, leader = analyse(rules)
    for r in rules:
        if r.memo:
            out.add("memo")
        if r.name in leftrec:
            out.add("left-recursion" if leader[r.name] == r.name and sum(1 for m in leftrec if leader[m] == leader[r.name]) == 1 else "indirect-left-recursion")
        for a in r.alts:
            if a.action is None:
                out.add("default-action")
            for n in a.items:
                walk(n.item)
    return out


def keyword_family(acc, scratch):
    """an alphabetic literal is a keyword wherever it is written - also when its only use is a forced token or a lookahead operand -
    and a keyword token is never a NAME; expected outcomes are known by construction"""
    from ..pegref import HEADER

    cases = [
        ("start: a=NAME &&'if' b=NAME ENDMARKER { ('S', a.string, b.string) }\n", {"aka": "ok", "kkk": "fail", "aaa": "forced", "akk": "fail", "kka": "fail", "ak": "fail"}),
        ("start: a=NAME !'if' b=NAME ENDMARKER { ('S', a.string, b.string) }\n", {"aa": "ok", "ak": "fail", "ka": "fail"}),
        ("start: a=NAME b=[&&'if'] ENDMARKER { ('S', a.string) }\n", {"ak": "ok", "kk": "fail", "aa": "forced"}),
        ("start: a=r ENDMARKER { ('S', a) }\nr: x=NAME &'if' 'if' { ('r', x.string) } | 'b'\n", {"ak": "ok", "kk": "fail", "b": "ok", "aa": "fail"}),
    ]
    for body, words in cases:
        text = "\n".join(HEADER) + "\n" + body
        try:
            cls, _ = _gen_text(text, scratch)
        except BaseException as e:  # noqa: BLE001
            acc.violation("generator-crashed-on-well-formed-grammar", {"grammar": text}, {"error": f"{type(e).__name__}: {e}"})
            continue
        for word, want in words.items():
            got = run_gen(cls, mk_tokens(word))
            acc.evals += 1
            acc.count("keyword_checks")
            acc.nontrivial(base.h64("kw", body, word))
            if got[0] != want:
                acc.violation("generated-parser-differs-from-peg-semantics", {"grammar": text, "word": word}, {"generated": repr(got)[:200], "reference": want})


def cut_family(acc, scratch, length):
    """a cut that is reached and followed by a failing item, under every kind of caller: the position after the failure must be the one
    before the alternative, whoever asks (an optional continues the sequence from wherever the callee left the tokenizer)"""
    def lit(s):
        return Named(None, Lit(s))

    def alt(tag, *items, names=()):
        return Alt(tuple(items), "('%s', %s)" % (tag, ", ".join(names)) if names else "('%s',)" % tag)

    cut_alts = (alt("c1", lit("x"), Named(None, Cut()), lit("+")), alt("c2", lit("x")))
    grp = Group(cut_alts)
    d_alts = (alt("d1", lit("+"), Named(None, Cut()), lit("a")), alt("d2", lit("+")))

    def start(*items, names=("a",)):
        return Rule("start", (Alt(tuple(items) + (Named(None, Cls("ENDMARKER")),), "('S', %s)" % ", ".join(names)),))

    grammars = {
        "optional-rule": [start(Named("a", Opt(Ref("c"))), lit("x"), lit("b")), Rule("c", cut_alts)],
        "optional-memo-rule": [start(Named("a", Opt(Ref("c"))), Named("b", Opt(Ref("c"))), lit("x"), names=("a", "b")), Rule("c", cut_alts, memo=True)],
        "optional-group": [start(Named("a", Opt(grp)), lit("x"), lit("b"))],
        "optional-then-name": [start(Named("a", Opt(Ref("c"))), Named("b", Cls("NAME")), names=("a", "b")), Rule("c", cut_alts)],
        "star": [start(Named("a", Star(Ref("c"))), lit("x"), lit("b")), Rule("c", cut_alts)],
        "plus-group": [start(Named("a", Plus(grp)), Named("b", Opt(Lit("x"))), names=("a", "b"))],
        "gather": [start(Named("a", Gather(Lit("b"), Ref("c"))), Named("b", Opt(Lit("x"))), names=("a", "b")), Rule("c", cut_alts)],
        "lookahead": [start(Named(None, PosLA(Ref("c"))), Named("a", Cls("NAME")), Named("b", Opt(Lit("+"))), names=("a", "b")), Rule("c", cut_alts)],
        "negative-lookahead": [start(Named(None, NegLA(grp)), Named("a", Cls("NAME"))), ],
        "start-rule-itself": [Rule("start", (Alt((lit("x"), Named(None, Cut()), lit("+"), Named(None, Cls("ENDMARKER"))), "('s1',)"), Alt((lit("x"), lit("b"), Named(None, Cls("ENDMARKER"))), "('s2',)")))],
        "nested-cuts": [start(Named("a", Opt(Ref("c"))), Named("b", Opt(Ref("d"))), Named("e", Star(Cls("NAME"))), names=("a", "b", "e")),
                        Rule("c", (alt("c1", lit("x"), Named(None, Cut()), Named("d", Ref("d")), names=("d",)), alt("c2", lit("x")))), Rule("d", d_alts)],
        "cut-in-left-recursion": [start(Named("a", Ref("e")), Named("b", Opt(Lit("+"))), names=("a", "b")),
                                  Rule("e", (alt("e1", Named("l", Ref("e")), lit("+"), Named(None, Cut()), Named("r", Cls("NAME")), names=("l", "r")), Alt((Named(None, Cls("NAME")),), None)))],
        "forced-after-optional-cut": [start(Named("a", Opt(grp)), Named("b", Opt(Forced(Lit("b")))), Named("e", Star(Lit("x"))), names=("a", "e"))],
    }
    words = ["".join(w) for l in range(length + 1) for w in itertools.product("abx+", repeat=l)]
    for name, rules in grammars.items():
        acc.count("cut_family_grammars")
        check_grammar(acc, rules, words, scratch, "cut-family:" + name, variants=True)


def fold_family(acc, rnd, scratch):
    """left-recursive operator rules against a left fold (shares nothing with seed growing)"""
    variants = [
        ("direct", "e: a=e '+' b=t { ('add', a, b) } | a=e 'b' b=t { ('sub', a, b) } | t\nt: NAME | NUMBER\n"),
        ("direct-memo", "e (memo): a=e '+' b=t { ('add', a, b) } | a=e 'b' b=t { ('sub', a, b) } | t\nt (memo): NAME | NUMBER\n"),
        ("indirect", "e: a=f b=t { (a[0], a[1], b) } | t\nf: a=e '+' { ('add', a) } | a=e 'b' { ('sub', a) }\nt: NAME | NUMBER\n"),
        ("group-op", "e: a=e o=('+' { 'add' } | 'b' { 'sub' }) b=t { (o, a, b) } | t\nt: NAME | NUMBER\n"),
    ]
    from ..pegref import HEADER

    for name, body in variants:
        text = "\n".join(HEADER) + "\nstart: a=e ENDMARKER { ('S', a) }\n" + body
        try:
            gf = os.path.join(scratch, "fold.gram")
            cls, _ = _gen_text(text, scratch)
        except BaseException as e:  # noqa: BLE001
            acc.violation("generator-crashed-on-well-formed-grammar", {"grammar": text}, {"error": f"{type(e).__name__}: {e}"})
            continue
        for _ in range(120):
            n = rnd.randint(1, 7)
            operands = [rnd.choice("ax1") for _ in range(n)]
            ops = [rnd.choice("+b") for _ in range(n - 1)]
            word = operands[0] + "".join(o + x for o, x in zip(ops, operands[1:]))
            toks = mk_tokens(word)
            want = toks[0]
            for k, o in enumerate(ops):
                want = ("add" if o == "+" else "sub", want, toks[2 * k + 2])
            got = run_gen(cls, toks)
            acc.evals += 1
            acc.count("fold_checks")
            acc.nontrivial(base.h64(name, word))
            if got != ("ok", ("S", want), len(toks)):
                acc.violation("left-recursive-rule-is-not-a-left-fold", {"grammar": text, "word": word, "variant": name}, {"expected": repr(("S", want))[:300], "observed": repr(got)[:300]})
                break


def _gen_text(text, scratch):
    return gen_parser(text, scratch)


def run_shard(shard):
    acc = Acc()
    scratch = tempfile.mkdtemp(prefix="xv_c17_")
    try:
        if "replay" in shard:
            c = shard["replay"]
            cls, _ = gen_parser(c["grammar"], scratch)
            acc.evals += 1
            acc.sample({"replay": "generated parser result", "result": repr(run_gen(cls, mk_tokens(c.get("word", ""))))[:300]})
            # replay without the structured grammar can only show the generated side; the original run holds the reference value
            return acc.dump()
        rnd = random.Random(f"{shard['seed']}:{shard['idx']}")
        L = shard["length"]
        words = ["".join(w) for l in range(L + 1) for w in itertools.product(CORE_SYMS, repeat=l)]
        seen_words = set(words)
        words += [w for w in ("".join(t) for l in range(1, 4) for t in itertools.product("abx1+ki", repeat=l)) if w not in seen_words]
        if shard["idx"] == 0:
            fold_family(acc, rnd, scratch)
            keyword_family(acc, scratch)
            cut_family(acc, scratch, L + 1)
        for _ in range(shard["grammars"]):
            g = G(rnd, rnd.randint(2, 6))
            rules = g.build()
            origin = "random"
            if rnd.random() < shard.get("p_neardup", 0.35):
                nd = with_near_duplicate(rnd, rules, g.hard)
                if nd is not None:
                    rules, origin = nd, "near-duplicate-group"
                    acc.count("grammars_with_near_duplicate_groups")
            kw = keywords(rules)
            # derived strings: the reference is used only to balance the workload (about as many accepted as rejected ones)
            cands = {derive(rnd, rules, kw) for _ in range(shard["derived"] * 3)}
            acc_w = [w for w in sorted(cands) if run_ref(rules, mk_tokens(w), kw)[0] == "ok"]
            rej_w = [w for w in sorted(cands) if w not in set(acc_w)]
            rnd.shuffle(rej_w)
            derived = set(acc_w[: shard["derived"]]) | set(rej_w[: max(20, len(acc_w))])
            check_grammar(acc, rules, words + sorted(derived - set(words)), scratch, origin, variants=rnd.random() < shard.get("p_variants", 0.5))
    finally:
        shutil.rmtree(scratch, ignore_errors=True)
    return acc.dump()


def plan(tier, seed):
    q = tier == "quick"
    n = 16 if q else 96
    return {"shards": [{"seed": seed, "idx": i, "grammars": 30 if q else 60, "length": 4 if q else 5, "derived": 150 if q else 400, "p_variants": 0.5} for i in range(n)],
            "shard_timeout": 3000}


def finish(acc, tier, seed):
    reasons = []
    if acc.counters.get("grammars", 0) < (300 if tier == "quick" else 3000):
        reasons.append(f"only {acc.counters.get('grammars', 0)} grammars generated")
    if acc.counters.get("result_ok", 0) < 8 * acc.counters.get("grammars", 0):
        reasons.append("accepting side hardly exercised")
    need = {"Lit", "Cls", "Ref", "Opt", "Star", "Plus", "Gather", "PosLA", "NegLA", "Cut", "Forced", "Group", "memo", "left-recursion", "indirect-left-recursion", "default-action"}
    missing = need - set(acc.sets.get("features", ()))
    if missing:
        reasons.append(f"constructs never generated: {sorted(missing)}")
    return reasons


def evidence_extra(acc, tier, seed):
    return {"programs": acc.counters.get("grammars", 0), "disagreements_checked": acc.counters.get("violations", 0),
            "explanation": "programs = generated parsers validated against the reference; each on every token string up to the length bound plus derived strings"}
