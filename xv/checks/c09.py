"""C09 - tokenizer agrees with CPython's tokenizer on Python sources."""
from __future__ import annotations

import itertools
import random
import re
import tokenize as pytok

from .. import base, corpus, gen_py, tokcheck
from ..acc import Acc

LEVEL = "exploration"
RULE = ("Python sources CPython's tokenize accepts (no xonsh-only lexemes, no f-strings): corpus files, literal-spelling x continuation product, "
        "operator runs re-spaced to minimal whitespace, indentation patterns; significant tokens compared as (type,string,start,end); "
        "distinct non-trivial = distinct text with >= 2 significant tokens that reached the comparator")
ASSUMPTIONS = ["NEWLINE/INDENT/DEDENT/ENDMARKER are compared by their place in the sequence only (as the property states), all other tokens with text and coordinates", "fragments that close a bracket they did not open are outside the domain (not Python sources)", "the legacy `<>` operator (barry_as_FLUFL) is outside the domain", "oracle normalisation: CPython 3.12.1 reports the end column of multi-line non-ASCII string tokens in bytes; converted to characters", "reference = tokenize.generate_tokens of the running CPython 3.12.1", "WS/COMMENT/NL dropped on both sides, all operators typed OP"]

_XONSH_ONLY = re.compile(r"[$?`]|!(?!=)|&&|\|\||>&|@\(")


def worker_init():
    base.load_repo()


def in_domain(src, toks):
    if toks is None or "\0" in src or "﻿" in src:
        return False
    for t in toks:
        if t.type in (pytok.FSTRING_START, pytok.ERRORTOKEN):
            return False
        if t.type == pytok.NAME and not t.string.isidentifier():
            # reference artefact: CPython's tokenize module emits a NAME for any run of non-ASCII characters; the compiler then rejects
            # the text as an invalid character, so it is not valid Python
            return False
        if t.type == pytok.OP:
            if _XONSH_ONLY.search(t.string) or t.string == "<>":
                return False
    # valid Python never closes a bracket it did not open (CPython's tokenize module does not check this)
    depth = 0
    for t in toks:
        if t.type == pytok.OP:
            if t.string in "([{":
                depth += 1
            elif t.string in ")]}":
                depth -= 1
                if depth < 0:
                    return False
    # digraphs formed by adjacent CPython tokens
    prev = None
    for t in toks:
        if prev is not None and prev.end == t.start and prev.type == pytok.OP and t.type == pytok.OP:
            pair = prev.string + t.string
            if _XONSH_ONLY.search(pair):
                return False
        prev = t
    return True


def _xtok(src):
    from peg_parser.tokenize import generate_tokens

    return list(generate_tokens(src))


def check_case(acc, src, origin):
    ptoks = gen_py.py_tokens(src)
    if not in_domain(src, ptoks):
        acc.count("skipped_out_of_domain")
        return
    exp = tokcheck.placement_only(tokcheck.cpython_sig(ptoks))
    out = base.guarded(_xtok, src)
    acc.count("inputs_" + origin)
    if out.kind == "timeout":
        acc.inconc("case-watchdog", {"src": src})
        return
    acc.evals += 1
    if len(exp) >= 3:
        acc.nontrivial(base.h64(src))
    if acc.evals % 1999 == 1:
        acc.sample({"origin": origin, "src": src[:120]})
    case = {"src": src, "origin": origin}
    if out.kind != "tree":
        acc.violation("tokenizer-rejects-valid-python", case, {"outcome": out.brief()})
        return
    obs = tokcheck.placement_only(tokcheck.xonsh_sig(out.value))
    for t in obs:
        acc.seen("token_types", t[0])
    d = tokcheck.first_diff(exp, obs)
    if d:
        acc.violation("token-stream-differs", case, {"index": d[0], "cpython": repr(d[1]), "xonsh": repr(d[2])})


NUM_FOLLOW = ["", " ", "j", "J", ".", "..", ".real", " .real", "e", "e5", "_", "x", "if a else b", "or b", "and b", " if a else b", "in b", "is b", "not in b", "+1", "-1",
              "**2", "//2", "<<1", ">=1", "!=1", ":=1", "->a", "@b", ",", ")", "]", "}", ":", ";", "\n", "\\\n+1", "#c", " #c", "l", "L", "0", "_0", "__0", "e+", "e-1", "E+1", "jj", "j.imag"]
OPS = sorted({"!=", "%", "%=", "&", "&=", "(", ")", "*", "**", "**=", "*=", "+", "+=", ",", "-", "-=", "->", ".", "...", "/", "//", "//=", "/=", ":", ":=", ";", "<", "<<",
              "<<=", "<=", "=", "==", ">", ">=", ">>", ">>=", "@", "@=", "[", "]", "^", "^=", "{", "|", "|=", "}", "~"})
INDENT_UNITS = [" ", "  ", "    ", "\t", "        ", " \t", "\t ", "   \t", "\f", "\f    ", "    \f", "  \f  "]


def fragments(rnd, n):
    strs = list(gen_py.string_literals())
    for _ in range(n):
        r = rnd.random()
        if r < 0.3:
            yield "x = " + rnd.choice(gen_py.NUMBERS) + rnd.choice(NUM_FOLLOW) + rnd.choice(["", "\n"])
        elif r < 0.5:
            yield rnd.choice(["", "x=", "x = ", "f(", "["]) + rnd.choice(strs) + rnd.choice(["", " ", ".x", "[0]", " 'b'", "'b'", "\"c\"", ")", "]", "\n", ";y", "if a else b", "%a", "#c"]) + rnd.choice(["", "\n"])
        elif r < 0.7:
            k = rnd.randint(1, 5)
            parts = []
            for _ in range(k):
                parts.append(rnd.choice(["a", "1", "x1", "_", "b2", "1.5", "'s'", "é", "ab"]))
                parts.append("".join(rnd.choice(OPS) for _ in range(rnd.randint(1, 3))))
            yield "".join(parts) + rnd.choice(["a", "1", ""]) + rnd.choice(["", "\n"])
        elif r < 0.85:
            # indentation patterns
            depth = [""]
            lines = []
            for _ in range(rnd.randint(2, 9)):
                rr = rnd.random()
                if rr < 0.35:
                    depth.append(depth[-1] + rnd.choice(INDENT_UNITS))
                    lines[-1:] = [(lines[-1] if lines else "if a:")] if False else lines[-1:]
                    lines.append(depth[-2] + "if a:")
                    lines.append(depth[-1] + rnd.choice(["x = 1", "pass", "y = (1,\n  2)", "z = 'a' \\\n 'b'"]))
                elif rr < 0.55 and len(depth) > 1:
                    depth.pop()
                    lines.append(depth[-1] + "w = 2")
                elif rr < 0.7:
                    lines.append(rnd.choice(["", "   ", "\t", "# c", "      # deep", "\f", "  \f"]))
                elif rr < 0.78:
                    # a line that holds only a backslash continuation after (some) indentation
                    lines.append(rnd.choice(["", depth[-1], depth[-1] + "  ", " ", "\t"]) + "\\")
                else:
                    lines.append(depth[-1] + rnd.choice(["a = 1", "b(2)", "c; d", "e = [\n1,\n   2]", "g = '''\n  x\n'''"]))
            yield ("\r\n" if rnd.random() < 0.15 else "\n").join(lines) + rnd.choice(["\n", "", "\n\n", "\n  ", "\n# end"])
        else:
            yield rnd.choice(["x = 1", "a.b", "f(x)", "'s'", "1 + 2"]) + rnd.choice([" # comment", "#", " \\\n + 1", "\\\n", " \\\n\\\n y", "\t#\tc", " ;", ";;", "\n\n\n", "\n#\n#\n", " \f ", "\f"]) + rnd.choice(["", "\n"])


# statement layout after a literal that spans lines: the line structure (NEWLINE vs NL, INDENT/DEDENT, end of input) of what follows must
# not depend on how the previous logical line was continued (backslash inside an f-string field, inside a string, inside brackets)
SPANNING = [
    'y = f"{a \\\n}"', "y = f'''{a \\\n + b}'''", 'y = f"{a:{w \\\n}}"', "y = f'{a \\\n!r}' 's'", 'y = (f"{a \\\n}",\n  1)', "y = f'''{a\n}'''", "y = f'''{\n\\\na\\\n}'''", 'y = f"{a}" \\\n  f"{b \\\n}"',
    "y = 'a\\\nb'", "y = '''a\\\n'''", "y = [1,\\\n2]", "y = f'''\\\n{a}\\\n'''", 'y = rf"{a \\\n:>3}"', "y = f'{a!r:{w}\\\n}' if 0 else 1", 'y = f"{ {1: 2}[1] \\\n }"', "y = f'{f'{a \\\n}'}'",
]
AFTER = ["z\n", "\nz\n", "# c\nz\n", "", "    # c\n", "\n", "    w\nz\n", "  \n", "z", "    w", "\n\n    w\n", "else:\n    pass\n", "\\\n", "    \\\n    w\n", "\f\nz\n"]


def run_shard(shard):
    acc = Acc()
    if "replay" in shard:
        check_case(acc, shard["replay"]["src"], "replay")
        return acc.dump()
    rnd = random.Random(f"{shard['seed']}:{shard['kind']}:{shard.get('idx', 0)}")
    kind = shard["kind"]
    if kind == "product":
        hand = [n for n in gen_py.NUMBERS if n not in set(gen_py.NUMBERS_PRODUCT)]
        for num, fol in itertools.product(hand, NUM_FOLLOW):
            check_case(acc, "x = " + num + fol, "number")
        for num, fol in itertools.product(gen_py.NUMBERS_PRODUCT, ["", " ", ".real", " if a else b", "+1", ")", "\n", "j", "_", "e", "x"]):
            check_case(acc, "x = " + num + fol, "number-product")
        for a, b in itertools.product(OPS, OPS):
            check_case(acc, "a" + a + b + "b", "oppair")
            check_case(acc, "a " + a + b + " 1\n", "oppair")
        for lit in gen_py.string_literals():
            for fol in ("", " ", ".x", "'b'", " \"c\"", "\n", "if a else b", "#c", "[0]"):
                check_case(acc, "x = " + lit + fol, "string")
            if "\n" in lit:
                # the same literal under CRLF line ends (continuation inside a string, multi-line strings)
                for fol in ("", "\n", " 'b'\n", "\ny = 1\n"):
                    check_case(acc, ("x = " + lit + fol).replace("\n", "\r\n"), "string-crlf")
        for s in gen_py.SEEDS:
            if "\\\n" in s or "'''" in s or '"""' in s:
                check_case(acc, s.replace("\n", "\r\n"), "seed-crlf")
        for s in gen_py.SEEDS:
            check_case(acc, s, "seed")
        for s in ("x\U000e0100 = 1\n", "a\u0301b = c\n", "\u05e2\u05b4\u05d1 = 2\n", "x = a\u20dd + 1\n"):
            check_case(acc, s, "xid")
        for lit, tail in itertools.product(SPANNING, AFTER):
            check_case(acc, "if x:\n    " + lit + "\n" + tail, "after-spanning-literal")
            check_case(acc, lit + "\n" + tail.lstrip(" "), "after-spanning-literal")
            check_case(acc, ("if x:\n    " + lit + "\n" + tail).replace("\n", "\r\n"), "after-spanning-literal")
    elif kind == "fragments":
        for s in fragments(rnd, shard["n"]):
            check_case(acc, s, "fragment")
    elif kind == "files":
        for path in shard["files"]:
            text = corpus.read(path)
            if text is None:
                continue
            check_case(acc, text, "file")
            stmts = corpus.statements(text)
            rnd.shuffle(stmts)
            for s in stmts[: shard.get("per_file", 10)]:
                m = gen_py.layout_mutant(rnd, s)
                if m:
                    check_case(acc, m, "stmt-layout")
                # minimal whitespace: remove spaces where CPython still splits identically
                m2 = squeeze(rnd, s)
                if m2:
                    check_case(acc, m2, "stmt-squeezed")
    return acc.dump()


def squeeze(rnd, src):
    """remove inter-token spaces on one-line statements where CPython's token strings stay the same"""
    toks = gen_py.py_tokens(src)
    if not toks:
        return None
    base_sig = [(t.type, t.string) for t in toks if t.type not in (pytok.NL, pytok.COMMENT)]
    lines = src.split("\n")
    out = src
    for _ in range(6):
        cands = [m.start() for m in re.finditer(r"(?<=\S) (?=\S)", out)]
        if not cands:
            break
        i = rnd.choice(cands)
        trial = out[:i] + out[i + 1 :]
        t2 = gen_py.py_tokens(trial)
        if t2 and [(t.type, t.string) for t in t2 if t.type not in (pytok.NL, pytok.COMMENT)] == base_sig:
            out = trial
    return out if out != src else None


def plan(tier, seed):
    rnd = random.Random(seed)
    q = tier == "quick"
    shards = [{"kind": "product", "seed": seed}]
    for i in range(16 if q else 160):
        shards.append({"kind": "fragments", "seed": seed, "idx": i, "n": 3000 if q else 6000})
    files = corpus.files()
    rnd.shuffle(files)
    if q:
        files = files[:400]
    for i in range(0, len(files), 10):
        shards.append({"kind": "files", "seed": seed, "idx": i, "files": files[i : i + 10], "per_file": 10 if q else 40})
    return {"shards": shards}


def finish(acc, tier, seed):
    need = 30000 if tier == "quick" else 400000
    return [f"only {acc.evals} comparisons (< {need})"] if acc.evals < need else []
