"""C03 - totality: every input terminates with a tree or a SyntaxError/TokenError."""
from __future__ import annotations

import ast
import os
import pathlib
import random
import re
import shutil
import tempfile

from .. import base, clock, corpus, gen_py, gen_xonsh
from ..acc import Acc

LEVEL = "exploration"
RULE = ("hostile inputs: character soup, prefixes and 1-3 character edits of Python/xonsh statements, unterminated constructs, deep nesting; each "
        "is run through generate_tokens, parse_string (exec and eval) and (a fraction) parse_file under a logical-step budget; distinct non-trivial = "
        "distinct input text with at least 2 characters that reached the outcome classifier")
ASSUMPTIONS = [
    "termination is decided on sys.monitoring PY_START/PY_RESUME/backward-JUMP counts inside peg_parser code objects; cap = max(2e7, 2e5*len) steps (50x the largest count seen on the unchanged tree)",
    "a wall-clock watchdog firing is inconclusive, never a violation",
]
TOLERATED_INCONCLUSIVE = 0

_tmp = {}


def worker_init():
    base.load_repo()
    import peg_parser.parser
    import peg_parser.subheader
    import peg_parser.tokenize
    import peg_parser.tokenizer

    _tmp["n"] = clock.install([peg_parser.parser, peg_parser.subheader, peg_parser.tokenize, peg_parser.tokenizer])
    _tmp["dir"] = tempfile.mkdtemp(prefix="xv_c03_")
    import atexit

    atexit.register(shutil.rmtree, _tmp["dir"], True)


def cap_for(src):
    return int(max(2e7, 2e5 * len(src)))


def _tokens(src):
    from peg_parser.tokenize import generate_tokens

    n = 0
    for _ in generate_tokens(src):
        n += 1
    return n or 1


def _parse_file(src):
    cls = base.load_repo()
    p = os.path.join(_tmp["dir"], "case.xsh")
    with open(p, "w", encoding="utf-8", newline="") as f:
        f.write(src)
    return cls.parse_file(pathlib.Path(p))


# (finding id, exception class, mechanism test on the input) -- narrow by construction
def _raiser(exc):
    import traceback

    frames = [f for f in traceback.extract_tb(exc.__traceback__) if "peg_parser" in f.filename or "pegen" in f.filename]
    return frames[-1].name if frames else None


def classify_escape(point, src, exc):
    name = type(exc).__name__
    where = _raiser(exc)
    if name == "AssertionError" and where == "consume_macro_params" and "!(" in src:
        return "F03c1"
    if name == "StopIteration" and where == "consume_macro_params" and "!(" in src:
        return "F03c2"
    if name == "StopIteration" and where == "peek" and re.search(r"with\s*!", src):
        return "F03c3"
    if name == "AttributeError" and where == "is_adjacent" and "?" in src and "'tuple' object has no attribute" in str(exc):
        return "F03e"
    if isinstance(exc, RecursionError) and max(gen_py.nesting_depth(src), _crude_depth(src)) >= 22:
        return "F03g"  # (repaired: reported as a SyntaxError now; a hit is an alarm)
    return None


ODD_CHARS = ["\udcff", "\ud800", "\udc80\udcc3", "\ud83d", "\uffff", "\U0010ffff", "\x85", "\ufffe"]
ODD_TEMPLATES = [
    "@@", "x = f'@@{a}' + b\n", "x = f'{a}@@' + b\n", "x = f'{a:@@>3}' + b\n", "x = f'''{a=}@@''' + b\n", "x = f'{a!r:@@}{b}'\n", "x = rf'@@{a}' , b\n", "f!(@@) + x\n", "f!(a, @@ b)(c)\n", "x = $(ls! @@) + y\n",
    "![echo! @@] ; z\n", "x = `@@.*` + y\n", "x = g`@@` + y\n", "with! c:\n    @@\nx = 1\n", "with! c: @@\nx = 1\n", "x = '@@' + y\n", "x = b'@@' + y\n", "x = p'@@' / y\n", "x = pf'@@{a}' / y\n",
    "# @@\nx = 1\n", "x = 1  # @@\ny = 2\n", "$(echo @@) + x\n", "x = $@@ + y\n", "@@ = 1 + y\n", "x = @@ + y\n", "x@@?\n", "$[ls @@ a] ; y\n", "x = @(a@@) + y\n", "x = '''\n@@\n''' + y\n", "def f(a@@): pass\n",
    "x = y  @@\n", "x = (y,\n @@ z)\n", "type @@ = int\n", "x = f'{a}' '@@' f'{b}'\n", "x = f'{a!@@}'\n", "x = f'{@@}'\n", "x = 1 if @@ else f!(@@)\n", "aé = f'@@{a}'\n", "é; f!(@@); $(ls! @@)\n",
]


def _crude_depth(src):
    """nesting measure for inputs CPython's tokenizer may reject: brackets, indentation, and the right-recursive chains
    (unary operators, not, lambda, conditional expressions, power) that also cost one recursion level per element"""
    d = best = 0
    for ch in src:
        if ch in "([{":
            d += 1
            best = max(best, d)
        elif ch in ")]}":
            d = max(0, d - 1)
    runs = [len(m.group(0).replace(" ", "")) for m in re.finditer(r"(?:[-+~] ?)+", src)]
    indent = max((len(l) - len(l.lstrip(" \t")) for l in src.split("\n")), default=0)
    return max(best, src.count("not "), src.count("lambda"), src.count(" if "), src.count("**"), src.count("await "), max(runs, default=0), indent)


def observe(acc, point, src, fn, *args):
    clock.start(cap_for(src))
    out = base.guarded(fn, *args, timeout=180)
    steps = clock.stop()
    acc.maxi("max_steps_" + point, steps)
    acc.count("calls_" + point)
    acc.count("steps", steps)
    case = {"src": src, "point": point}
    if out.kind == "timeout":
        acc.inconc("case-watchdog", case)
        return out
    acc.evals += 1
    acc.count(f"outcome_{point}_{out.cls()}")
    if out.kind == "budget":
        acc.violation("no-termination-within-step-cap", case, {"cap": cap_for(src)})
        _tmp["budget_hits"] = _tmp.get("budget_hits", 0) + 1
    elif out.kind == "none":
        acc.violation("returned-None", case, {})
    elif out.kind == "other":
        fid = classify_escape(point, src, out.exc)
        if fid:
            acc.finding(fid, src[:100])
        else:
            acc.violation("escaped-" + type(out.exc).__name__, case, {"exception": out.brief()})
    elif out.kind == "tree" and point != "tokens":
        want = ast.Expression if point == "eval" else ast.Module
        if not isinstance(out.value, want):
            acc.violation("wrong-root-type", case, {"got": type(out.value).__name__})
    return out


def check_case(acc, src, rnd=None, file_p=0.1):
    if len(src) >= 2:
        acc.nontrivial(base.h64(src))
    if acc.evals % 2999 == 0:
        acc.sample(src[:160])
    cls = base.load_repo()
    for point, fn, args in (("tokens", _tokens, (src,)), ("exec", cls.parse_string, (src, "exec")), ("eval", cls.parse_string, (src, "eval"))):
        if observe(acc, point, src, fn, *args).kind in ("budget", "timeout"):
            return  # the other observation points would only repeat the same non-termination
    if rnd is None or rnd.random() < file_p:
        try:
            src.encode("utf-8")
        except UnicodeEncodeError:
            return
        observe(acc, "file", src, _parse_file, src)


def run_shard(shard):
    acc = Acc()
    if "replay" in shard:
        c = shard["replay"]
        check_case(acc, c["src"], None)
        return acc.dump()
    rnd = random.Random(f"{shard['seed']}:{shard['kind']}:{shard.get('idx', 0)}")
    kind = shard["kind"]
    n = shard.get("n", 0)
    _tmp["budget_hits"] = 0

    def go(s, r=rnd):
        if _tmp["budget_hits"] >= 1:
            acc.count("skipped_after_budget_hits")
            return
        check_case(acc, s, r)

    if kind == "fixed":
        for s in gen_xonsh.UNTERMINATED:
            for v in (s, s + "\n", s + "\n\n", "x = 1\n" + s, s + "\nx = 1\n"):
                go(v, None)
        for s in gen_xonsh.XONSH_STMTS + gen_xonsh.PY_STMTS:
            go(s, None)
        for i, ch in enumerate(gen_xonsh.HOSTILE):
            for tmpl in ("{}", "x = 1 {}", "x = 'a' {}\n", "{} x\n", "f(a, {} b)\n", "if a:\n    {}\n", "$(ls {})\n", "x = [1, {}\n 2]\n", "f'{{a}} {}'\n", "'''a\n{}\nb'''\n"):
                go(tmpl.format(ch), None)
        # characters no UTF-8 text holds but a Python str can (lone surrogates, as os.fsdecode yields for undecodable file names), and
        # noncharacters: placed where the source text is taken over verbatim or measured (byte columns) *before* a later node
        for s in gen_xonsh.MATCH_MACROS:
            for v in (s, s + "$(ls)\n", "x = 1\n" + s + "assert w, 'm'\n", "if q:\n    " + s.replace("\n", "\n    ") + "\n", s + s):
                go(v, None)
                acc.count("class_match_macro")
        for ch in ODD_CHARS:
            for tmpl in ODD_TEMPLATES:
                go(tmpl.replace("@@", ch), None)
                acc.count("class_odd_char_in_verbatim_text")
    elif kind == "fstrings":
        from . import c10

        for s in c10.FIXED:
            go(s, None)
        for _ in range(n):
            s = c10.gen_case(rnd)
            go(s)
            go(gen_xonsh.char_edits(rnd, s, rnd.randint(1, 2)))
            if rnd.random() < 0.3:
                for p in gen_xonsh.prefixes(rnd, s, 1):
                    go(p)
    elif kind == "nesting":
        for d in shard["depths"]:
            for o, c in ("()", "[]", "{}"):
                go("x = " + o * d + c * d + "\n")
                go("x = " + o * d + "\n")
                go(o * d)
                go(c * d)
            go("x = " + "f(" * d + ")" * d + "\n")
            go("x = " + "$(" * d + "a" + ")" * d + "\n")
            go("x = " + "${" * d + "a" + "}" * d + "\n")
            go("x = " + "-" * d + "1\n")
            go("x = " + "not " * d + "1\n")
            go("x = " + "f'{" * min(d, 40) + "a" + "}'" * min(d, 40) + "\n")
            go("".join(" " * i + "if a:\n" for i in range(d)) + " " * d + "pass\n")
            go("".join(" " * i + "if a:\n" for i in range(d)))
            go("x = " + "lambda: " * d + "1\n")
            go("x = " + "a if b else " * d + "c\n")
            go("x = " + "(a, " * d + "\n")
            go("f!(" + "(" * d + ")" * d + ")\n")
            go("f!(" + "[" * d + "\n")
            go("with! a:\n" + "".join(" " * (i + 1) + "b\n" for i in range(d)))
    elif kind == "soup":
        for _ in range(n):
            go(gen_xonsh.soup(rnd))
    elif kind == "mutate":
        pool = list(gen_xonsh.XONSH_STMTS + gen_xonsh.PY_STMTS + gen_py.SEEDS + gen_xonsh.UNTERMINATED)
        for _ in range(n):
            s = rnd.choice(pool)
            if rnd.random() < 0.3:
                s += rnd.choice(pool)
            if rnd.random() < 0.06:
                k = rnd.randrange(len(s) + 1)
                s = s[:k] + rnd.choice(ODD_CHARS) + s[k:]
                acc.count("class_odd_char_inserted")
            r = rnd.random()
            if r < 0.6:
                go(gen_xonsh.char_edits(rnd, s))
            elif r < 0.85:
                for p in gen_xonsh.prefixes(rnd, s, 2):
                    go(p)
            else:
                go(gen_xonsh.char_edits(rnd, s, 1) + rnd.choice(["", "\n", "\r\n", "\\", "\\\n"]))
    elif kind == "corpus":
        stmts = []
        for path in shard["files"]:
            text = corpus.read(path)
            if text:
                stmts.extend(s for s in corpus.statements(text) if len(s) < 1500)
        rnd.shuffle(stmts)
        for s in stmts[: shard["n"]]:
            r = rnd.random()
            if r < 0.5:
                go(gen_xonsh.char_edits(rnd, s))
            elif r < 0.8:
                for p in gen_xonsh.prefixes(rnd, s, 2):
                    go(p)
            else:
                go(s)
    return acc.dump()


def plan(tier, seed):
    rnd = random.Random(seed)
    shards = [{"kind": "fixed", "seed": seed}]
    q = tier == "quick"
    depths = [1, 2, 5, 10, 20, 24, 26, 28, 33, 40, 60, 100] if q else [1, 2, 3, 5, 8, 10, 15, 20, 22, 24, 25, 26, 27, 28, 30, 33, 36, 40, 50, 60, 80, 100, 150, 200, 400, 1000, 3000, 10000]
    for i in range(0, len(depths), 3):
        shards.append({"kind": "nesting", "seed": seed, "idx": i, "depths": depths[i : i + 3]})
    for i in range(4 if q else 32):
        shards.append({"kind": "fstrings", "seed": seed, "idx": i, "n": 250 if q else 1500})
    nshard = 16 if q else 96
    for i in range(nshard):
        shards.append({"kind": "soup", "seed": seed, "idx": i, "n": 500 if q else 3000})
        shards.append({"kind": "mutate", "seed": seed, "idx": i, "n": 450 if q else 2500})
    files = corpus.files()
    rnd.shuffle(files)
    per = 6
    for i in range(16 if q else 128):
        shards.append({"kind": "corpus", "seed": seed, "idx": i, "files": files[i * per : (i + 1) * per], "n": 120 if q else 400})
    return {"shards": shards, "shard_timeout": 1500 if q else 7200}


def finish(acc, tier, seed):
    reasons = []
    need = 30000 if tier == "quick" else 500000
    if acc.evals < need:
        reasons.append(f"only {acc.evals} classified calls (< {need})")
    if acc.counters.get("steps", 0) < acc.evals * 5:
        reasons.append("logical clock saw almost no events: monitor not attached")
    return reasons
