"""C12 - file and string entry points agree, in every locale."""
from __future__ import annotations

import json
import os
import random
import shutil
import subprocess
import tempfile

from .. import base, gen_py, gen_xonsh
from ..acc import Acc

LEVEL = "exploration"
RULE = ("contents (valid/invalid, ASCII/non-ASCII, LF/CRLF/CR, with/without final newline) are written as UTF-8 files; in child interpreters "
        "started under each locale/UTF-8-mode environment parse_file(tmp) is compared with parse_string(text,'exec') (tree dump with positions or "
        "class/msg/line/col/end/text), and signatures are compared across environments; an open() spy records the encoding of every file object "
        "handed to the code; a case = (content, environment); distinct non-trivial = distinct pairs with >= 2 characters of content")
ASSUMPTIONS = ["no Latin-1 locale exists in this image: that configuration is covered only through the encoding the spy records",
               "file names differ between the two entry points by design and are not compared"]

ENVS = {
    "utf8": {"LC_ALL": "C.UTF-8", "LANG": "C.UTF-8"},
    "ascii": {"LC_ALL": "C", "LANG": "C", "PYTHONCOERCECLOCALE": "0", "PYTHONUTF8": "0"},
    "posix": {"LC_ALL": "POSIX", "LANG": "POSIX", "PYTHONCOERCECLOCALE": "0", "PYTHONUTF8": "0"},
    "c-utf8mode": {"LC_ALL": "C", "LANG": "C", "PYTHONCOERCECLOCALE": "0", "PYTHONUTF8": "1"},
    "coerced": {"LC_ALL": "C", "LANG": "C"},
}

NONASCII = ["x = 'é€'\n", "é = 1\n", "# commentaire é\nx = 1\n", "s = '''日本\n語'''\n", "f(λ='ß')\n", "x = 'é' 1\n", "x = ('é',\n", "$É = 'ü'\n", "$(echo é ü)\n", "x = p'/tmp/é'\n",
            "with! é:\n    ü ö\n", "f!(é, ü)\n", "x = f'{é}ü'\n", "def é(): return 'é\n", "x = 'ü\n", "if é:\n  a\n b\n", "x = '\\N{BULLET}•'\n", "'''é\n", "x = [é,\n  ü€]\n",
            # files that start with a UTF-8 byte order mark
            "\ufeffx = 1\n", "\ufeffx = (1,\n 2 3)\n", "\ufeff", "\ufeff# c\nif a:\n  b\n c\n", "\ufeffé = f'{é=}'\n"]


# constructs that run over physical lines on which no token starts (blank and comment lines inside brackets, `=` debug text, raw blocks):
# the two entry points get those lines from different places; every newline convention, with and without a final line end
SPANNING = ["f(a\n\n  b)\n", "f(a\n  # c\n  b)\n", "(a,\n\n b) += 1\n", "x = f'''{a =\n\n }'''\n", "x = [1,\n\n 2\n", "with! c:\n    a\n\n    b\nz = 1 1\n", "f!(a,\n\n b)\n", "x = '''a\n\nb''' 1\n",
            "if a:\n\n    b\n  c\n", "def f(\n\n    a,\n  # k\n    b c):\n  pass\n", "x = (1 +\n\n\n  )\n", "x = f'{a!r =\n\n}' 2\n", "$(ls\n\n -l) 1\n", "y = 1\nx = {'k':\n\n  # c\n  v w}\n", "é = (\n\n 'ü' 1)\n"]


def spanning_contents():
    out = []
    for s in SPANNING:
        for nl in ("\n", "\r\n", "\r"):
            t = s.replace("\n", nl)
            out.append(t)
            out.append(t[: -len(nl)])
    return out


def contents(rnd, n):
    pool = list(gen_xonsh.XONSH_STMTS + gen_xonsh.PY_STMTS + gen_py.SEEDS + gen_xonsh.UNTERMINATED + NONASCII * 6)
    out = []
    for _ in range(n):
        k = rnd.randint(1, 4)
        s = "".join(x if x.endswith("\n") else x + "\n" for x in (rnd.choice(pool) for _ in range(k)))
        r = rnd.random()
        if r < 0.35:
            s = gen_xonsh.char_edits(rnd, s, rnd.randint(1, 2))
        elif r < 0.45:
            i = rnd.randrange(len(s) + 1)
            s = s[:i] + rnd.choice(["é", "€", "日", "ß", "'é'", " # ü\n"]) + s[i:]
        r = rnd.random()
        if r < 0.15:
            s = s.replace("\n", "\r\n")
        elif r < 0.2:
            s = s.replace("\n", "\r")
        if rnd.random() < 0.25:
            s = s.rstrip("\r\n")
        if rnd.random() < 0.1:
            s += rnd.choice(["   ", "\t", "\n\n", "\n  # c", "\\"])
        try:
            s.encode("utf-8")
        except UnicodeEncodeError:
            continue
        if "\0" in s:
            continue  # parse_file/parse_string both reject NUL through the same path; keep files readable as text
        out.append(s)
    return out


# files given as bytes (hex after the marker): sources with a PEP 263 coding declaration other than UTF-8
BYTES = "\x01bytes:"
CODED_FILES = [BYTES + b.hex() for b in (
    b"# coding: latin-1\nx = '\xe9'  # \xe9\n", b"# -*- coding: utf-7 -*-\nx = '+AOk-'\n", b"#!/usr/bin/env xonsh\n# vim: set fileencoding=latin-1 :\ny = '\xfc' 1\n",
    b"# coding: latin-1\n$X = '\xe9'\nwith! c:\n    raw \xe9\nf!(\xfc)\n", b"# coding: cp1252\nz = f'{a=}\x80' +\n", b"\xef\xbb\xbf# coding: utf-8\nx = '\xc3\xa9'\n",
    b"# coding: unicode_escape\nx = 'a\\x41'\n",
    # contents that are no text for CPython either: an unknown encoding, a byte order mark contradicted by the declaration, bytes invalid in UTF-8
    # line ends other than LF around the declaration: it counts only in the first two lines, and a later `coding:` is just text
    b"#\rcoding=1\r", "#\rx='coding:latin-1 \u00e9'\r".encode(), b"\r# coding: latin-1\rx = '\xe9'\r", b"#!x\r\n# coding: latin-1\r\nx = '\xe9' 1\r\n", b"# c\r# d\r# coding: latin-1\rx = 1\r",
    # a declaration counts on the first two physical lines only: blank lines in front are lines too
    b"#!/usr/bin/env xonsh\n\n# -*- coding: latin-1 -*-\nname = '\xc3\xa9'\n", b"# a\n\n# Hardcoding: defaults\nx = 1\n", b"\n\n# coding: latin-1\nx = '\xc3\xa9' 1\n", b"\r\n\r\n# coding: cp1252\r\ny = '\xc3\xbc'\r\n", b"#\r\r# coding: latin-1\rz = '\xc3\xa9'\r",
    b"#!x\r\n# coding: nonexistent\r\nx = 1\r\n", b"#!x\r# coding: nonexistent\rx = 1\r", b"x = 1\r\ny = 2\r\nz = '\xff'\r\n", b"# coding: ascii\r\n\r\nw = '\xc3\xa9'\r\n",
    b"# coding: no-such-codec\nx = 1\n", b"#!x\n# -*- coding: ut\xc3\xa9f-8 -*-\nx = 1\n", b"\xef\xbb\xbf# coding: latin-1\nx = 1\n", b"x = '\xe9'\n")]


def run_env(envname, texts):
    d = tempfile.mkdtemp(prefix="xv_c12_")
    try:
        for i, t in enumerate(texts):
            with open(os.path.join(d, f"c{i:05d}.xsh"), "wb") as f:
                f.write(bytes.fromhex(t[len(BYTES):]) if t.startswith(BYTES) else t.encode("utf-8"))
        env = {k: v for k, v in os.environ.items() if not k.startswith(("LC_", "LANG", "PYTHONUTF8", "PYTHONCOERCE", "PYTHONIOENCODING"))}
        env.update(ENVS[envname])
        env["PYTHONHASHSEED"] = "0"
        env["PYTHONDONTWRITEBYTECODE"] = "1"
        env["PYTHONWARNINGS"] = "ignore"
        child = os.path.join(base.VERIF, "xv", "c12_child.py")
        p = subprocess.run([base.PY, child, base.REPO, d], env=env, capture_output=True, timeout=900)
        if p.returncode != 0:
            return None, p.stderr.decode("utf-8", "replace")[-800:]
        return json.loads(p.stdout.decode("ascii")), None
    finally:
        shutil.rmtree(d, ignore_errors=True)


def run_shard(shard):
    acc = Acc()
    if "replay" in shard:
        c = shard["replay"]
        texts, envname = ([c["prev"]] if c.get("prev") is not None else []) + [c["text"]], c["env"]
    else:
        rnd = random.Random(f"{shard['seed']}:{shard.get('idx', 0)}")
        texts = (NONASCII + CODED_FILES + spanning_contents() + gen_xonsh.UNTERMINATED[:40] if shard.get("idx", 0) == 0 else []) + contents(rnd, shard["n"])
        envname = shard["env"]
    res, err = run_env(envname, texts)
    if res is None:
        acc.inconc("child interpreter failed: " + str(err), {"env": envname})
        return acc.dump()
    acc.seen("environments", (envname, res["env"]["preferred"], res["env"]["utf8_mode"]))
    prev = None
    for t, c in zip(texts, res["cases"]):
        case = {"text": t, "env": envname}
        if c.get("rewritten") is not None and c["rewritten"] != c["file"] and "timeout" not in (c["rewritten"][0], c["file"][0]):
            acc.violation("same-path-rewritten-differs", {"text": t, "env": envname, "prev": prev}, {"fresh_path": _short(c["file"]), "rewritten_path": _short(c["rewritten"])})
        acc.count("rewritten_path_parses", 1 if c.get("rewritten") is not None else 0)
        if c.get("piped") is not None:
            acc.count("parses_through_a_named_pipe")
            # (a pipe can be read once: a parse that hangs on it while the regular file parses is trying to read the path again)
            if c["piped"] != c["file"] and c["file"][0] != "timeout":
                acc.violation("file-read-through-a-pipe-differs", {"text": t, "env": envname}, {"regular_file": _short(c["file"]), "named_pipe": _short(c["piped"])})
        prev = t
        acc.evals += 1
        if len(t) >= 2:
            acc.nontrivial(base.h64(envname, t))
        if acc.evals % 397 == 1:
            acc.sample({"env": envname, "text": t[:80], "file": str(c["file"])[:80]})
        fs, ss = c["file"], c["string"]
        acc.count("file_outcome_" + fs[0])
        if not t.isascii():
            acc.count("nonascii_contents")
        if fs[0] == "timeout" or ss[0] == "timeout":
            acc.inconc("case-watchdog", case)
            continue
        for name, enc in c["opened"]:
            acc.seen("encodings_of_opened_files", str(enc).lower())
            if str(enc).lower().replace("_", "-") not in ("utf-8", "utf8", "utf-8-sig", "binary") and not t.startswith(BYTES):  # (a declared encoding is what the file says)
                acc.violation("source-file-not-read-as-utf8", case, {"file": name, "encoding": enc})
        if not c["opened"]:
            acc.count("spy_saw_no_open")
        else:
            acc.count("spy_opens", len(c["opened"]))
        if c.get("undecodable"):
            # no text to hand to the string entry point (see c12_child): the file must be refused, identically in every environment
            acc.count("contents_that_are_no_text")
            if c["undecodable"] == "reference-decoding-disagrees-with-cpython":
                acc.inconc("reference decoding disagrees with CPython's own", case)
            elif fs[0] == "tree":
                acc.violation("undecodable-file-parsed", case, {"file": _short(fs), "reference": c["undecodable"]})
            elif c.get("located") is False:
                acc.violation("refusal-of-undecodable-file-does-not-quote-its-line", case, {"file": _short(fs)})
            elif c.get("located"):
                acc.count("located_refusals_of_contents_that_are_no_text")
        elif fs != ss:
            # (finding F12c - no newline translation on the string side - is repaired: any difference is reported as such)
            acc.violation("file-and-string-differ", case, {"file": _short(fs), "string": _short(ss), "string_translated_agrees": bool("\r" in t and c["translated"] is not None and fs == c["translated"])})
        acc.seen("sig", (base.h64(t), envname, base.h64(fs)))
    return acc.dump()


def _short(sig):
    if sig and sig[0] == "tree":
        return ["tree", sig[1][:300]]
    return sig


def plan(tier, seed):
    q = tier == "quick"
    n_shards, n = (8, 400) if q else (32, 1300)
    envs = ["utf8", "ascii", "posix", "c-utf8mode"] + ([] if q else ["coerced"])
    shards = [{"seed": seed, "idx": i, "env": e, "n": n} for i in range(n_shards) for e in envs]
    return {"shards": shards, "shard_timeout": 1500}


def finish(acc, tier, seed):
    reasons = []
    by = {}
    for h, env, s in acc.sets.get("sig", ()):
        by.setdefault(h, {})[env] = s
    cross = 0
    for h, m in by.items():
        if len(m) > 1:
            cross += 1
            if len(set(m.values())) > 1:
                acc.violation("outcome-depends-on-environment", {"content_hash": h, "env": "all", "text": ""}, {"signatures_by_env": m})
    acc.counters["contents_compared_across_environments"] = cross
    acc.sets.pop("sig", None)
    if acc.counters.get("spy_opens", 0) == 0:
        reasons.append("open() spy never fired: encoding monitor not attached")
    if acc.counters.get("nonascii_contents", 0) < 50:
        reasons.append("too few non-ASCII contents")
    need = 7000 if tier == "quick" else 100000
    if acc.evals < need:
        reasons.append(f"only {acc.evals} (content, environment) pairs (< {need})")
    return reasons
