"""C05 - xonsh expression sugar desugars identically in every expression context."""
from __future__ import annotations

import ast
import random
import re

from .. import base, corpus, gen_ctx
from ..acc import Acc
from ..compare import diff_trees

LEVEL = "exploration"
RULE = ("pairs (context, construct): contexts are hand-written programs with Load-position holes plus every Load-position expression of corpus "
        "statements (outside assignment/augassign/annotation/del targets and not directly after a decorator's '@'); the hole is filled with the "
        "construct and, separately, with its documented translation; parse_string(context[construct]) must equal ast.parse(context[translation]) "
        "without positions, and the node standing for the construct must span exactly the inserted text; $NAME/${expr} in binding-target holes must be "
        "accepted with Store context; distinct non-trivial = distinct (program, construct) pairs for which CPython accepts the translated program")
ASSUMPTIONS = ["translation table = the repository's own documentation of the sugar (tests/data/exprs, tests/data/stmts)",
               "statements containing f-strings are not used as harvested contexts (sugar inside f-string fields is checked under C10)"]


def worker_init():
    base.load_repo()


class _Offsets(list):
    """character offset of every line start; .lines keeps the line texts (tree columns count UTF-8 bytes, as in CPython)"""


def _offsets(src):
    offs = _Offsets([0])
    offs.lines = src.splitlines(keepends=True)
    for line in offs.lines:
        offs.append(offs[-1] + len(line))
    return offs


def _charcol(offs, lineno, bytecol):
    line = offs.lines[lineno - 1] if 0 < lineno <= len(offs.lines) else ""
    if line.isascii():
        return bytecol
    return len(line.encode("utf-8", "surrogatepass")[:bytecol].decode("utf-8", "ignore"))


def walk_paths(tree):
    todo = [((), tree)]
    while todo:
        path, node = todo.pop()
        yield path, node
        for f in node._fields:
            v = getattr(node, f, None)
            if isinstance(v, list):
                for i, x in enumerate(v):
                    if isinstance(x, ast.AST):
                        todo.append((path + ((f, i),), x))
            elif isinstance(v, ast.AST):
                todo.append((path + ((f, None),), v))


def follow(tree, path):
    node = tree
    for f, i in path:
        node = getattr(node, f)
        if i is not None:
            node = node[i]
    return node


def span_of(node, offs):
    if not hasattr(node, "lineno") or getattr(node, "end_lineno", None) is None:
        return None
    try:
        return (offs[node.lineno - 1] + _charcol(offs, node.lineno, node.col_offset),
                offs[node.end_lineno - 1] + _charcol(offs, node.end_lineno, node.end_col_offset))
    except (IndexError, TypeError):
        return None


def inner(text):
    """(offset, text) of the part of a construct that its node spans: parentheses around && / || are not part of the node"""
    if text.startswith("(") and text.endswith(")"):
        return 1, text[1:-1]
    return 0, text


def classify_span(construct, observed_text):
    return None


_GLUES_TO_AT = re.compile(r"\$\(|\w*`|\(")


def check_pair(acc, ctx_x, spans_x, ctx_t, spans_t, origin):
    """ctx_x: program with xonsh text, spans_x: [(offset, text)]; ctx_t/spans_t likewise for the translation"""
    kind, cp = base.cpython(ctx_t, "exec")
    if kind != "tree":
        acc.count("skipped_translation_not_python")
        return
    case = {"xonsh": ctx_x, "python": ctx_t, "origin": origin}
    out = base.parse(ctx_x, "exec")
    acc.count("class_" + origin)
    if out.kind == "timeout":
        acc.inconc("case-watchdog", case)
        return
    acc.evals += 1
    acc.nontrivial(base.h64(ctx_x))
    for _, t in spans_x:
        acc.seen("constructs", t[:12])
    if acc.evals % 1499 == 1:
        acc.sample({"xonsh": ctx_x[:100], "python": ctx_t[:120]})
    if not out.accepted:
        if origin == "target-base-context" and out.kind == "syntax" and spans_x and all(t.rstrip().endswith("?") for _, t in spans_x):
            acc.finding("F05d", ctx_x[:80])  # a help construct as the base of a binding-target chain
            return
        if origin == "matmul-glue-context" and out.kind == "syntax" and spans_x and all(_GLUES_TO_AT.match(t) for _, t in spans_x):
            acc.finding("F05f", ctx_x[:80])  # '@$(' and '@`' are single tokens
            return
        acc.violation("construct-rejected-in-expression-context", case, {"outcome": out.brief()})
        return
    diffs = diff_trees(cp, out.value, positions=False)
    if diffs:
        acc.violation("desugaring-differs-from-translation", case, {"n": len(diffs), "diffs": [list(map(str, d)) for d in diffs[:5]]})
        return
    # span of the node standing for each construct
    offs_t, offs_x = _offsets(ctx_t), _offsets(ctx_x)
    index = {}
    for path, node in walk_paths(cp):
        sp = span_of(node, offs_t)
        if sp is not None and isinstance(node, ast.expr):
            if sp not in index or len(path) < len(index[sp]):
                index[sp] = path
    for (ox, tx), (ot, tt) in zip(spans_x, spans_t):
        dx, ix = inner(tx)
        dt, it = inner(tt)
        path = index.get((ot + dt, ot + dt + len(it)))
        if path is None:
            acc.count("span_oracle_unavailable")
            continue
        node = follow(out.value, path)
        sp = span_of(node, offs_x)
        acc.count("span_checks")
        want = (ox + dx, ox + dx + len(ix))
        if sp != want:
            obs = ctx_x[sp[0] : sp[1]] if sp else None
            fid = classify_span(ix, obs)
            if fid:
                acc.finding(fid, ctx_x[:80])
            else:
                acc.violation("construct-node-span-differs-from-inserted-text", case, {"construct": ix, "expected_span": want, "observed_span": sp, "observed_text": obs})
            return


def check_target(acc, ctx, x, t, origin):
    prog_x, spans_x = gen_ctx.fill(ctx, [x])
    prog_t, spans_t = gen_ctx.fill(ctx, [t])
    kind, cp = base.cpython(prog_t, "exec")
    if kind != "tree":
        acc.count("skipped_translation_not_python")
        return
    case = {"xonsh": prog_x, "python": prog_t, "origin": origin}
    out = base.parse(prog_x, "exec")
    acc.count("class_" + origin)
    if out.kind == "timeout":
        acc.inconc("case-watchdog", case)
        return
    acc.evals += 1
    acc.nontrivial(base.h64(prog_x))
    if not out.accepted:
        acc.violation("env-target-rejected", case, {"outcome": out.brief()})
        return
    diffs = diff_trees(cp, out.value, positions=False)  # ctx classes are compared: Store must be Store
    if diffs:
        acc.violation("env-target-differs-from-translation", case, {"diffs": [list(map(str, d)) for d in diffs[:5]]})


class _Harvest(ast.NodeVisitor):
    """Load-position expression nodes of a statement that are legitimate holes"""

    def __init__(self):
        self.nodes = []
        self.banned_starts = set()

    def generic_visit(self, node):
        if isinstance(node, (ast.FunctionDef, ast.AsyncFunctionDef, ast.ClassDef)):
            for d in node.decorator_list:
                self.banned_starts.add((d.lineno, d.col_offset))
        skip_fields = set()
        if isinstance(node, ast.Assign):
            skip_fields = {"targets"}
        elif isinstance(node, (ast.AugAssign, ast.NamedExpr)):
            skip_fields = {"target"}
        elif isinstance(node, ast.AnnAssign):
            skip_fields = {"target", "annotation"}
        elif isinstance(node, ast.Delete):
            skip_fields = {"targets"}
        elif isinstance(node, ast.arg):
            skip_fields = {"annotation"}
        elif isinstance(node, (ast.FunctionDef, ast.AsyncFunctionDef)):
            skip_fields = {"returns", "type_params"}
        elif isinstance(node, (ast.JoinedStr, ast.TypeAlias)):
            return
        elif isinstance(node, (ast.For, ast.AsyncFor, ast.comprehension)):
            skip_fields = {"target"}
        elif isinstance(node, ast.withitem):
            skip_fields = {"optional_vars"}
        elif isinstance(node, (ast.match_case,)):
            skip_fields = {"pattern"}
        if isinstance(node, ast.expr) and isinstance(getattr(node, "ctx", ast.Load()), ast.Load) and not isinstance(node, (ast.Starred, ast.Slice, ast.Constant if False else ast.Starred)):
            self.nodes.append(node)
        for f in node._fields:
            if f in skip_fields:
                continue
            v = getattr(node, f, None)
            if isinstance(v, list):
                for x in v:
                    if isinstance(x, ast.AST):
                        self.visit(x)
            elif isinstance(v, ast.AST):
                self.visit(v)


def harvested_pairs(rnd, stmt, cons, k):
    tree = corpus.parse_ok(stmt)
    if tree is None or not stmt.isascii():
        return
    if any(isinstance(n, ast.JoinedStr) for n in ast.walk(tree)):
        return
    h = _Harvest()
    h.visit(tree)
    offs = _offsets(stmt)
    cands = [n for n in h.nodes if (n.lineno, n.col_offset) not in h.banned_starts and not isinstance(n, ast.Slice)]
    if not cands:
        return
    for _ in range(k):
        n = rnd.choice(cands)
        sp = span_of(n, offs)
        if sp is None:
            continue
        # a node whose span starts right after an identifier/closing bracket/quote (a generator expression that is the sole call
        # argument spans the call's own parentheses) cannot be replaced textually without gluing it to the preceding token
        if sp[0] > 0 and (stmt[sp[0] - 1].isalnum() or stmt[sp[0] - 1] in "_)]}'\""):
            continue
        if sp[1] < len(stmt) and (stmt[sp[1]].isalnum() or stmt[sp[1]] in "_'\""):
            continue
        x, t = rnd.choice(cons)
        px = stmt[: sp[0]] + x + stmt[sp[1] :]
        pt = stmt[: sp[0]] + t + stmt[sp[1] :]
        yield px, [(sp[0], x)], pt, [(sp[0], t)]


LAYOUT_CONTEXTS = ["x = {}\n", "{}\n", "print({})\n", "f(a, k={})\n", "if {}:\n    pass\n", "    x = [{}]\n".replace("    x", "if a:\n    x"), "longer_name = a + {}\n", "x = (y,  {})\n", "for i in  {}:\n    pass\n",
                   "def f():\n    return {}\n", "é = {}\n", "x = {{'k': [{}]}}\n"]


def run_shard(shard):
    acc = Acc()
    if "replay" in shard:
        c = shard["replay"]
        # replay recomputes spans by searching the construct text
        check_pair(acc, c["xonsh"], [], c["python"], [], "replay")
        return acc.dump()
    rnd = random.Random(f"{shard['seed']}:{shard['kind']}:{shard.get('idx', 0)}")
    cons = gen_ctx.constructs()
    kind = shard["kind"]
    if kind == "fixed":
        for x, t in cons:
            for ctx in gen_ctx.LOAD_CONTEXTS:
                px, sx = gen_ctx.fill(ctx, [x])
                pt, st = gen_ctx.fill(ctx, [t])
                check_pair(acc, px, sx, pt, st, "handwritten-context")
        for x, t in gen_ctx.TARGET_CONSTRUCTS:
            for ctx in gen_ctx.TARGET_CONTEXTS:
                check_target(acc, ctx, x, t, "binding-target")
        for x, t in cons:
            for ctx in gen_ctx.MATMUL_GLUE_CONTEXTS:
                px, sx = gen_ctx.fill(ctx, [x])
                pt, st = gen_ctx.fill(ctx, [t])
                check_pair(acc, px, sx, pt, st, "matmul-glue-context")
        for x, t in cons + gen_ctx.TARGET_CONSTRUCTS:
            for ctx in gen_ctx.TARGET_BASE_CONTEXTS:
                px, sx = gen_ctx.fill(ctx, [x])
                pt, st = gen_ctx.fill(ctx, [t])
                check_pair(acc, px, sx, pt, st, "target-base-context")
        # a subprocess form continued on a second line, the continuation indented by every width in turn: the words must not depend on
        # which column a context happens to shift them to (e.g. where the first line's last piece ended)
        for k in range(0, 44):
            pad = " " * k
            for x, t in ((f"$(echo ab\n{pad}cd)", "__xonsh__.subproc_captured('echo', 'ab', 'cd')"),
                         (f"![ls $HOME\n{pad}-l x]", "__xonsh__.subproc_captured_hiddenobject('ls', __xonsh__.env['HOME'], '-l', 'x')"),
                         (f"!(cat 'a b'\n{pad}@(v) \n{pad}w)", "__xonsh__.subproc_captured_object('cat', \"'a b'\", *__xonsh__.list_of_strs_or_callables(v), 'w')"),
                         (f"$[e g`*.py`\n{pad}$(pwd)]", "__xonsh__.subproc_uncaptured('e', __xonsh__.pathsearch('g`*.py`'), __xonsh__.subproc_captured('pwd'))")):
                for ctx in LAYOUT_CONTEXTS:
                    px, sx = gen_ctx.fill(ctx, [x])
                    pt, st = gen_ctx.fill(ctx, [t])
                    check_pair(acc, px, sx, pt, st, "continuation-layout")
    elif kind == "multi":
        for _ in range(shard["n"]):
            ctx = rnd.choice(gen_ctx.LOAD_CONTEXTS)
            picks = [rnd.choice(cons) for _ in range(3)]
            px, sx = gen_ctx.fill(ctx, [p[0] for p in picks])
            pt, st = gen_ctx.fill(ctx, [p[1] for p in picks])
            check_pair(acc, px, sx, pt, st, "multi-hole")
    elif kind == "corpus":
        stmts = []
        for path in shard["files"]:
            text = corpus.read(path)
            if text:
                stmts.extend(s for s in corpus.statements(text) if len(s) < 2500)
        rnd.shuffle(stmts)
        for s in stmts[: shard["n"]]:
            for px, sx, pt, st in harvested_pairs(rnd, s, cons, shard.get("k", 4)):
                check_pair(acc, px, sx, pt, st, "harvested-context")
    return acc.dump()


def plan(tier, seed):
    rnd = random.Random(seed)
    q = tier == "quick"
    shards = [{"kind": "fixed", "seed": seed}]
    for i in range(8 if q else 64):
        shards.append({"kind": "multi", "seed": seed, "idx": i, "n": 500 if q else 1500})
    files = corpus.files()
    rnd.shuffle(files)
    for i in range(24 if q else 200):
        shards.append({"kind": "corpus", "seed": seed, "idx": i, "files": files[i * 6 : i * 6 + 6], "n": 120 if q else 400, "k": 4})
    return {"shards": shards}


def finish(acc, tier, seed):
    reasons = []
    need = 6000 if tier == "quick" else 80000
    if acc.evals < need:
        reasons.append(f"only {acc.evals} pairs compared (< {need})")
    if acc.counters.get("span_checks", 0) < acc.evals // 4:
        reasons.append("span monitor reached too few pairs")
    return reasons
