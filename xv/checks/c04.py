"""C04 - every returned tree is a well-formed, compilable CPython AST."""
from __future__ import annotations

import ast
import random
import warnings

from .. import astcheck, base, corpus, gen_ctx, gen_py, gen_xonsh
from ..acc import Acc

LEVEL = "exploration"
RULE = ("every accepted input is (1) passed to compile(tree, '<verif>', mode): TypeError/ValueError = malformed tree; a SyntaxError is tolerated only "
        "if the tree can be written out (ast.unparse re-parses) and CPython rejects that text too; (2) walked structurally (complete spans inside the "
        "source with start<=end, list fields are lists, required fields present, Store/Del/Load contexts); inputs: Python seeds and corpus statements, "
        "every xonsh statement form, the product xonsh construct x (expression | binding-target | other-target) context, macro/subprocess forms and "
        "their mutants; distinct non-trivial = distinct accepted (mode, text) with >= 2 tokens")
ASSUMPTIONS = ["CPython's compile() is the validator of ast objects", "AST columns count UTF-8 bytes, as in CPython's trees: 'inside the source' is checked in bytes"]


def worker_init():
    base.load_repo()


def classify(src, tree, kind, detail):
    """F03e: the raw (atom, token) tuple of help_atom stored as a subprocess argument"""
    if "?" in src:
        for n in ast.walk(tree):
            if isinstance(n, ast.Call) and any(isinstance(a, tuple) and len(a) == 2 and isinstance(a[0], ast.AST) for a in n.args):
                return "F03e"
    return None


def check_case(acc, src, mode, origin):
    out = base.parse(src, mode)
    acc.count("inputs_" + origin)
    if out.kind == "timeout":
        acc.inconc("case-watchdog", {"src": src})
        return
    if not out.accepted:
        acc.count("not_accepted")
        return
    tree = out.value
    acc.evals += 1
    acc.count("accepted_" + origin)
    if len(src.split()) >= 2 or len(src) > 4:
        acc.nontrivial(base.h64(mode, src))
    if acc.evals % 1499 == 1:
        acc.sample({"mode": mode, "src": src[:100]})
    case = {"src": src, "mode": mode, "origin": origin}
    problems = []
    for d in astcheck.structural_defects(tree, src):
        problems.append(("structure:" + d[0], list(map(str, d))))
    try:
        with warnings.catch_warnings():
            warnings.simplefilter("ignore")
            compile(tree, "<verif>", mode)
        acc.count("compiled")
    except (TypeError, ValueError) as e:
        problems.append(("compile-reports-malformed-tree", f"{type(e).__name__}: {e}"))
    except RecursionError:
        acc.count("compile_recursion_skipped")
    except SyntaxError as e:
        # semantic rejection is fine only if the written-out Python is rejected as well
        acc.count("compile_semantic_rejections")
        try:
            text = ast.unparse(tree)
            reparsed = ast.parse(text, mode=mode)
        except (SyntaxError, ValueError, RecursionError, AttributeError, TypeError) as e2:
            problems.append(("compile-rejects-unwritable-tree", f"compile: {e.msg}; unparse/parse: {type(e2).__name__}: {e2}"))
        else:
            try:
                with warnings.catch_warnings():
                    warnings.simplefilter("ignore")
                    compile(text, "<verif-text>", mode)
                problems.append(("compile-rejects-but-written-out-compiles", f"compile(tree): {e.msg}; text: {text[:120]!r}"))
            except SyntaxError:
                acc.count("semantic_rejections_confirmed_on_text")
    for kind, detail in problems:
        fid = classify(src, tree, kind, detail)
        if fid:
            acc.finding(fid, src[:80])
        else:
            acc.violation(kind, case, {"detail": detail})
            break


def product_cases(rnd, n):
    cons = gen_ctx.constructs()
    for _ in range(n):
        r = rnd.random()
        if r < 0.55:
            ctx = rnd.choice(gen_ctx.LOAD_CONTEXTS)
            texts = [rnd.choice(cons)[0] for _ in range(3)]
        elif r < 0.8:
            ctx = rnd.choice(gen_ctx.TARGET_CONTEXTS)
            texts = [rnd.choice(gen_ctx.TARGET_CONSTRUCTS)[0]]
        elif r < 0.92:
            ctx = rnd.choice(gen_ctx.OTHER_TARGET_CONTEXTS + gen_ctx.TARGET_CONTEXTS + gen_ctx.PATTERN_CONTEXTS)
            texts = [rnd.choice(cons + gen_ctx.TARGET_CONSTRUCTS)[0]]
        else:
            ctx = rnd.choice(gen_ctx.LOAD_CONTEXTS)
            texts = [rnd.choice(["f!(a, b)", "g!(x y)", "$(echo @(a)@(b))", "$(a@(b)c)", "![x@$(y)z]", "pf'{a}/b'", "fp'{$H}'", "$(ls `*.py`)", "a?.b?" if False else "a?", "$(echo! raw text)", "!(e! x)"]) for _ in range(2)]
        yield gen_ctx.fill(ctx, texts)[0]


MULTILINE_SEEDS = ["$(echo pre@(x)post)\n", "![echo --flag=@(value) a@$(b c)d]\n", "x = $(echo @(a)@(b) ${'k'}z)\n", "f!(a, [b, c], {d: e})\n", "y = [$(ls -l), !(a b), ${x}, p'/a']\n",
                   "$(echo @([1, 2, 3]) pre@(f(a, b))suf)\n", "r = g(`a*`, $X, k=@foo`b`)\n", "z = ${f(a, b)} + $(cmd @(x if y else z))\n"]


def run_shard(shard):
    acc = Acc()
    if "replay" in shard:
        c = shard["replay"]
        check_case(acc, c["src"], c["mode"], "replay")
        return acc.dump()
    rnd = random.Random(f"{shard['seed']}:{shard['kind']}:{shard.get('idx', 0)}")
    kind = shard["kind"]
    if kind == "fixed":
        for s in gen_py.SEEDS + gen_xonsh.XONSH_STMTS + gen_xonsh.PY_STMTS:
            check_case(acc, s, "exec", "seed")
        from . import c09, c10

        for s in c10.FIXED + [lit + "\n" for lit in c09.SPANNING] + ["if x:\n    " + lit + "\nz = 1\n" for lit in c09.SPANNING]:
            check_case(acc, s, "exec", "fstring-and-spanning-literals")
        for _ in range(400):
            check_case(acc, c10.gen_case(rnd), "exec", "fstring-product")
        for s in gen_xonsh.XONSH_STMTS + MULTILINE_SEEDS:
            for _ in range(6):
                m = gen_xonsh.bracket_newlines(rnd, s)
                if m:
                    check_case(acc, m, "exec", "seed-multiline")
        for x, _ in gen_ctx.constructs() + gen_ctx.TARGET_CONSTRUCTS:
            check_case(acc, x, "eval", "construct-eval")
            for ctx in gen_ctx.LOAD_CONTEXTS:
                check_case(acc, gen_ctx.fill(ctx, [x])[0], "exec", "construct-in-load-context")
            for ctx in gen_ctx.TARGET_CONTEXTS + gen_ctx.OTHER_TARGET_CONTEXTS + gen_ctx.PATTERN_CONTEXTS:
                check_case(acc, gen_ctx.fill(ctx, [x])[0], "exec", "construct-in-target-context")
    elif kind == "product":
        for s in product_cases(rnd, shard["n"]):
            check_case(acc, s, "exec", "product")
            if rnd.random() < 0.35:
                m = gen_xonsh.bracket_newlines(rnd, s)
                if m:
                    check_case(acc, m, "exec", "product-multiline")
    elif kind == "mutate":
        pool = list(gen_xonsh.XONSH_STMTS + gen_py.SEEDS)
        for _ in range(shard["n"]):
            check_case(acc, gen_xonsh.char_edits(rnd, rnd.choice(pool), rnd.randint(1, 2)), "exec", "mutant")
    elif kind == "corpus":
        stmts = []
        for path in shard["files"]:
            text = corpus.read(path)
            if text:
                stmts.extend(corpus.statements(text))
        rnd.shuffle(stmts)
        for s in stmts[: shard["n"]]:
            check_case(acc, s, "exec", "corpus")
            m = gen_py.layout_mutant(rnd, s)
            if m:
                check_case(acc, m, "exec", "corpus-layout")
    return acc.dump()


def plan(tier, seed):
    rnd = random.Random(seed)
    q = tier == "quick"
    shards = [{"kind": "fixed", "seed": seed}]
    for i in range(16 if q else 128):
        shards.append({"kind": "product", "seed": seed, "idx": i, "n": 900 if q else 2500})
        shards.append({"kind": "mutate", "seed": seed, "idx": i, "n": 1500 if q else 3000})
    files = corpus.files()
    rnd.shuffle(files)
    for i in range(16 if q else 160):
        shards.append({"kind": "corpus", "seed": seed, "idx": i, "files": files[i * 6 : i * 6 + 6], "n": 250 if q else 800})
    return {"shards": shards}


def finish(acc, tier, seed):
    need = 12000 if tier == "quick" else 250000
    return [f"only {acc.evals} accepted trees validated (< {need})"] if acc.evals < need else []
