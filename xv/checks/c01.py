"""C01 - pure-Python sources parse to exactly CPython's AST (types, fields, spans)."""
from __future__ import annotations

import ast
import random
import re
import tokenize

from .. import base, corpus, gen_py
from ..acc import Acc
from ..compare import bytecols_to_charcols, diff_trees

LEVEL = "exploration"
RULE = ("cases = whole corpus files, their top-level statements, AST-recombined statements, literal-spelling products, hand-seeded "
        "constructs, and token-preserving layout mutants of all of these, in exec mode (and eval mode for expressions); a case counts as "
        "non-trivial and distinct by the hash of (mode, text) when it is in the property's domain, CPython accepts it and its tree has >= 4 nodes")
ASSUMPTIONS = [
    "reference = ast.parse of the running CPython 3.12.1",
    "domain filter uses CPython's tokenizer only (no f-strings, no '@(' digraph, no BOM/NUL, bracket nesting <= 50)",
]
TOLERATED_INCONCLUSIVE = 0

_NONWORD = re.compile(r"[^\w]")


def xid_names(toks):
    """identifiers CPython accepts that are not made of \\w characters (finding F01f)"""
    return [t.string for t in toks if t.type == tokenize.NAME and _NONWORD.search(t.string)]


_ID_FIELDS = ("id", "attr", "arg", "name", "module", "asname", "rest", "kwd_attrs", "names")


def nfkc_identifiers(tree):
    """In place: NFKC-normalise identifier-valued fields (the documented normaliser of finding F01h). Returns number changed."""
    import unicodedata

    n = 0
    for node in ast.walk(tree):
        for f in _ID_FIELDS:
            v = getattr(node, f, None)
            if isinstance(v, str) and not v.isascii():
                w = unicodedata.normalize("NFKC", v)
                if w != v:
                    setattr(node, f, w)
                    n += 1
            elif isinstance(v, list) and v and all(isinstance(x, str) for x in v):
                w = [unicodedata.normalize("NFKC", x) for x in v]
                if w != v:
                    setattr(node, f, w)
                    n += 1
    return n


def compare(cp, tree, src):
    """(remaining differences, findings whose exact normaliser was needed)"""
    diffs = diff_trees(cp, tree)
    used = []
    # (findings F01e - character columns - and F01h - identifiers not NFKC-normalised - had exact normalisers here until they were repaired)
    return diffs, used


def check_case(acc: Acc, src: str, mode: str, origin: str):
    toks = gen_py.py_tokens(src)
    if toks is None or not gen_py.in_c01_domain(src, toks):
        acc.count("skipped_out_of_domain")
        return
    kind, cp = base.cpython(src, mode)
    if kind != "tree":
        acc.count("skipped_cpython_" + kind)
        return
    case = {"src": src, "mode": mode, "origin": origin}
    out = base.parse(src, mode)
    acc.count("class_" + origin.split(":")[0])
    if out.kind == "timeout":
        acc.inconc("case-watchdog", case)
        return
    acc.evals += 1
    nnodes = sum(1 for _ in ast.walk(cp))
    if nnodes >= 4:
        acc.nontrivial(base.h64(mode, src))
    if acc.evals % 997 == 1:
        acc.sample({"mode": mode, "origin": origin, "src": src[:200]})
    acc.count("outcome_" + out.cls())
    from .c03 import _crude_depth

    depth = max(gen_py.nesting_depth(src, toks), _crude_depth(src))
    acc.maxi("max_nesting_depth", depth)
    if not out.accepted:
        # F01g: the recursion limit of the interpreter is reached (since the repair for C03 this is reported as a SyntaxError that says so;
        # a RecursionError that escapes is C03's business and is no longer attributed here)
        if out.kind == "syntax" and "recursion limit reached" in str(out.exc.msg) and depth >= 22:
            acc.finding("F01g", src[:120])
            return
        names = xid_names(toks)
        if out.rejected and names:
            # counterfactual attribution: with the non-\\w identifiers renamed the input must pass the exact oracle
            neutral = src
            for i, nm in enumerate(sorted(set(names), key=len, reverse=True)):
                neutral = neutral.replace(nm, f"xid_{i}_")
            k2, cp2 = base.cpython(neutral, mode)
            out2 = base.parse(neutral, mode)
            if k2 == "tree" and out2.accepted and not compare(cp2, out2.value, neutral)[0]:
                acc.finding("F01f", src[:120])
                return
        acc.violation("rejected-valid-python", case, {"outcome": out.brief()})
        return
    diffs, used = compare(cp, out.value, src)
    if diffs:
        acc.violation("tree-differs", case, {"n": len(diffs), "diffs": [list(map(str, d)) for d in diffs[:6]]})
        return
    for fid in used:
        acc.finding(fid, src[:120])


def worker_init():
    base.load_repo()


FF_TEMPLATES = [
    "if a:\n{1}b\n{1}if c:\n{2}d\n{1}e\nf\n", "def f():\n{1}x = 1\n{1}return x\n", "class A:\n{1}def m(self):\n{2}pass\n{1}y = 2\nz = 3\n",
    "while a:\n{1}try:\n{2}b\n{1}except E:\n{2}c\n{1}else:\n{2}d\n", "for i in y:\n{1}if i:\n{2}continue\n{1}x = (1,\n{2}2)\n{1}# c\n{1}z\n",
    "x = 1\nif a:\n{1}b\n\n{1}c\nelse:\n{1}d\n", "with a:\n{1}with b:\n{2}c\n{2}d\n{1}e\n",
]


def run_shard(shard):
    acc = Acc()
    if "replay" in shard:
        c = shard["replay"]
        check_case(acc, c["src"], c["mode"], c.get("origin", "replay"))
        return acc.dump()
    rnd = random.Random(f"{shard['seed']}:{shard['kind']}:{shard.get('idx', 0)}")
    kind = shard["kind"]
    if kind == "seeds":
        for s in gen_py.SEEDS:
            check_case(acc, s, "exec", "seed")
            for _ in range(shard.get("mutants", 3)):
                m = gen_py.layout_mutant(rnd, s)
                if m:
                    check_case(acc, m, "exec", "seed-layout")
        for s in EVAL_SEEDS:
            check_case(acc, s, "eval", "seed-eval")
        # argument lists: every sequence of up to four argument kinds (those CPython refuses are skipped by the domain filter)
        import itertools

        kinds = ["x", "*r", "k=1", "**kw", "y for y in z", "(a := 1)", "*s, t"]
        for n in range(1, 5):
            for seq in itertools.product(kinds[:5] if n == 4 else kinds, repeat=n):
                args = ", ".join(seq)
                for tmpl in ("f({})\n", "class C({}): pass\n", "@dec({})\ndef g(): pass\n", "obj.m({}).attr = 1\n") if n < 4 else ("f({})\n",):
                    check_case(acc, tmpl.format(args), "exec", "argument-orders")
        # the three line-end conventions of universal newlines, pure and mixed
        for s in gen_py.SEEDS:
            check_case(acc, s.replace("\n", "\r"), "exec", "seed-cr")
            ends = iter(rnd.choice(["\n", "\r\n", "\r"]) for _ in range(s.count("\n") + 1))
            check_case(acc, "".join(ch if ch != "\n" else next(ends) for ch in s), "exec", "seed-mixed-line-ends")
        for s in ("\u00b5 = 2\n", "x.\ufb01 = 1\n", "def f(\u00b5=1): return \u00b5\n", "import \u00b5 as \ufb01\n", "\u00e9 = f(x)\n", "x\U000e0100 = 1\n"):
            check_case(acc, s, "exec", "unicode-identifier")
        # indentation that contains form feeds: a form feed resets the column, so only what follows the last one counts
        for tmpl in FF_TEMPLATES:
            for unit in ("    ", "\t", "  ", " "):
                plain = tmpl.replace("{1}", unit).replace("{2}", unit * 2)
                check_case(acc, plain, "exec", "formfeed-indent")
                lines = plain.split("\n")
                for _ in range(shard.get("mutants", 3) * 2):
                    out = []
                    for ln in lines:
                        if ln[:1] in (" ", "\t") and rnd.random() < 0.5:
                            ln = rnd.choice(["", " ", "  ", "\t", "    ", " \t", "        "]) + "\f" + ln
                        elif ln and rnd.random() < 0.1:
                            ln = rnd.choice(["\f", " \f", "\f\f", "  \f"]) + ln
                        out.append(ln)
                    check_case(acc, "\n".join(out), "exec", "formfeed-indent")
        # lines that hold only a backslash continuation after their indentation
        for tmpl in FF_TEMPLATES:
            for unit in ("    ", "\t", "  "):
                plain = tmpl.replace("{1}", unit).replace("{2}", unit * 2)
                for _ in range(shard.get("mutants", 3) * 3):
                    check_case(acc, gen_py.backslash_line_mutant(rnd, plain), "exec", "backslash-line")
        for d in (3, 8, 12, 16, 20, 23, 25, 27, 30, 34, 40, 50):
            for o, c in ("()", "[]", "{}"):
                check_case(acc, "x = " + o * d + ("1" if o != "{" else "") + c * d + "\n", "exec", "nesting")
            check_case(acc, "x = " + "f(" * d + "1" + ")" * d + "\n", "exec", "nesting")
            check_case(acc, "x = a" + "[b" * d + "]" * d + "\n", "exec", "nesting")
            check_case(acc, "x = " + "-" * d + "1\n", "exec", "nesting")
            check_case(acc, "x = " + "not " * d + "a\n", "exec", "nesting")
            check_case(acc, "".join(" " * i + "if a:\n" for i in range(d)) + " " * d + "pass\n", "exec", "nesting")
            check_case(acc, "x = " + "lambda: " * d + "1\n", "exec", "nesting")
            check_case(acc, "(" * d + "1" + ")" * d, "eval", "nesting")
    elif kind == "literals":
        for s in gen_py.literal_cases(rnd, shard["n"]):
            check_case(acc, s, "exec", "literal")
            if rnd.random() < 0.3:
                m = gen_py.layout_mutant(rnd, s)
                if m:
                    check_case(acc, m, "exec", "literal-layout")
        strs = list(gen_py.string_literals())
        for _ in range(shard["n"] // 4):
            lit = rnd.choice(gen_py.NUMBERS + strs)
            check_case(acc, lit + rnd.choice(["", "\n", " ", " # c", "\n\n"]), "eval", "literal-eval")
    elif kind == "files":
        pool = gen_py.ExprPool()
        stmts = []
        for path in shard["files"]:
            text = corpus.read(path)
            if text is None:
                acc.count("files_skipped")
                continue
            tree = corpus.parse_ok(text)
            if tree is None:
                acc.count("files_cpython_rejects")
                continue
            acc.count("files")
            acc.count("bytes", len(text))
            if shard.get("whole", True):
                check_case(acc, text, "exec", "file:" + path)
            ss = corpus.statements(text, tree)
            stmts.extend(ss)
            pool.add_tree(tree, rnd)
        for s in stmts:
            if shard.get("stmts", True):
                check_case(acc, s, "exec", "stmt")
            if rnd.random() < shard.get("p_layout", 0.5) and len(s) < 4000:
                for _ in range(shard.get("mutants", 2)):
                    m = gen_py.layout_mutant(rnd, s)
                    if m:
                        check_case(acc, m, "exec", "stmt-layout")
        if pool.exprs and pool.stmts:
            for _ in range(shard.get("recomb", 0)):
                s = gen_py.recombine(rnd, pool)
                if not s:
                    continue
                check_case(acc, s, "exec", "recomb")
                if rnd.random() < 0.4:
                    m = gen_py.layout_mutant(rnd, s)
                    if m:
                        check_case(acc, m, "exec", "recomb-layout")
            for _ in range(shard.get("recomb", 0) // 3):
                e = rnd.choice(pool.exprs)
                try:
                    s = ast.unparse(e)
                except (RecursionError, ValueError):
                    continue
                check_case(acc, s + rnd.choice(["", "\n", "  ", " # c\n"]), "eval", "expr-eval")
    return acc.dump()


EVAL_SEEDS = [
    "1", "a", "a + b", "(a,\n b)", "[x for x in y]", "lambda: 0", "a if b else c", "x\n", "x\n\n", "x # c", "(yield)" if False else "a.b[c](d)",
    "a, b", "*a, b", "a,", "not a", "a := 1" if False else "(a := 1)", "{**a}", "{*a}", "...", "None", "'a' 'b'", "a[1:2]", "await_", "-1", "1 if 2 else 3",
    "a or b and c", "a < b < c", "x  ", "(\nx\n)", "x \\\n + y",
]


def plan(tier, seed):
    rnd = random.Random(seed)
    files = corpus.files()
    rnd.shuffle(files)
    shards = [{"kind": "seeds", "seed": seed, "mutants": 3 if tier == "quick" else 40}]
    if tier == "quick":
        budget, per, recomb, nlit = 4_000_000, 12, 300, 1500
    else:
        budget, per, recomb, nlit = 10**12, 12, 1500, 4000
    import os

    chunk, size, idx = [], 0, 0
    total = 0
    for f in files:
        try:
            sz = os.path.getsize(f)
        except OSError:
            continue
        if tier == "quick" and sz > 120_000:
            continue
        chunk.append(f)
        size += sz
        total += sz
        if len(chunk) >= per or size > 250_000:
            shards.append({"kind": "files", "seed": seed, "idx": idx, "files": chunk, "recomb": recomb, "p_layout": 0.5 if tier == "quick" else 1.0, "mutants": 2 if tier == "quick" else 3})
            chunk, size, idx = [], 0, idx + 1
        if total > budget:
            break
    if chunk:
        shards.append({"kind": "files", "seed": seed, "idx": idx, "files": chunk, "recomb": recomb, "p_layout": 0.5, "mutants": 2})
    for i in range(16 if tier == "quick" else 64):
        shards.append({"kind": "literals", "seed": seed, "idx": i, "n": nlit})
    return {"shards": shards, "shard_timeout": 1200 if tier == "quick" else 5400}


def finish(acc, tier, seed):
    reasons = []
    need = 15000 if tier == "quick" else 200000
    if acc.evals < need:
        reasons.append(f"only {acc.evals} oracle comparisons (< {need})")
    return reasons
