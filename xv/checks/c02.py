"""C02 - no over-acceptance: text in the Python lexicon that CPython rejects is rejected."""
from __future__ import annotations

import itertools
import random
import re
import tokenize as pytok

from .. import base, corpus, gen_py
from ..acc import Acc

LEVEL = "exploration"
RULE = ("complete enumeration of token sequences over a Python vocabulary up to a length bound (both modes), single-token deletion/insertion/"
        "replacement and token-boundary prefixes of corpus statements and seeds, and families around the lookaheads that fence xonsh alternatives; "
        "a case is evaluated when it is in the Python lexicon and CPython rejects it with SyntaxError; distinct non-trivial = distinct (mode, text) "
        "of that kind with >= 2 tokens")
ASSUMPTIONS = ["reference verdict = ast.parse of CPython 3.12.1 (ValueError/MemoryError/RecursionError => skipped)",
               "only accept-when-CPython-rejects is a C02 violation; the other direction belongs to C01"]

VOCAB = ["a", "b", "1", "'s'", "f'{a}'", "b'y'", "(", ")", "[", "]", "{", "}", ",", ":", ";", ".", "=", "==", "+", "-", "*", "**", "/", "@", "|", "&", "~", "<", ">", "->", ":=", "+=", "...", "%",
         "if", "else", "for", "in", "not", "and", "or", "is", "lambda", "def", "class", "return", "import", "from", "as", "with", "del", "pass", "None", "await", "async",
         "yield", "global", "match", "case", "type", "_", "\n", "try", "except", "raise", "while", "assert"]
CORE = ["a", "1", "'s'", "(", ")", "[", "]", "{", "}", ",", ":", "=", "*", "**", ".", "-", "if", "else", "for", "in", "not", "lambda", "del", "\n"]

_LEX_BAD = re.compile(r"[$?`]|!(?!=)|&&|\|\||@\(")


def worker_init():
    base.load_repo()


def in_lexicon(src):
    """made only of Python lexemes: CPython's tokenizer output has no xonsh-only characters outside strings/comments and no p-strings"""
    if "\0" in src:
        return False
    toks = gen_py.py_tokens(src)
    if toks is None:
        # CPython's tokenizer itself rejects (unterminated string/bracket): judge on the raw text instead
        stripped = re.sub(r"#[^\n]*", "", src)
        stripped = re.sub(r"('''|\"\"\")[\s\S]*?\1|'(?:[^'\\\n]|\\.)*'|\"(?:[^\"\\\n]|\\.)*\"", "''", stripped)
        if _LEX_BAD.search(stripped) or re.search(r"(?i)\b[rbuf]*p[rbuf]*['\"]", stripped) or "'" in stripped.replace("''", "") or '"' in stripped:
            return False
        return True
    prev = None
    for t in toks:
        if t.type in (pytok.OP, pytok.ERRORTOKEN) and _LEX_BAD.search(t.string):
            return False
        if t.type == pytok.ERRORTOKEN and t.string.strip():
            return False
        if prev is not None and prev.end == t.start:
            if prev.type in (pytok.OP, pytok.ERRORTOKEN) and t.type in (pytok.OP, pytok.ERRORTOKEN) and _LEX_BAD.search(prev.string + t.string):
                return False
            if prev.type == pytok.NAME and t.type in (pytok.STRING, pytok.FSTRING_START) and "p" in prev.string.lower():
                return False
        prev = t
    return True


def check_case(acc, src, mode, origin):
    kind, val = base.cpython(src, mode)
    if kind != "syntax":
        acc.count("skipped_cpython_" + ("accepts" if kind == "tree" else "unavailable"))
        return
    if not in_lexicon(src.replace("\0", "") if origin == "lexical" else src):  # (the lexical family places NUL characters on purpose)
        acc.count("skipped_not_python_lexicon")
        return
    out = base.parse(src, mode)
    acc.count("class_" + origin)
    if out.kind == "timeout":
        acc.inconc("case-watchdog", {"src": src, "mode": mode})
        return
    acc.evals += 1
    acc.count("outcome_" + out.cls())
    if len(src.split()) >= 2 or len(src) > 3:
        acc.nontrivial(base.h64(mode, src))
    if acc.evals % 4999 == 1:
        acc.sample({"mode": mode, "src": src[:80], "cpython": str(val.msg)[:60], "xonsh": out.brief()[:60]})
    if out.accepted:
        case = {"src": src, "mode": mode, "origin": origin}
        if _f08a_trigger(src):
            acc.finding("F08a", src[:80])
            return
        if _f02b_trigger(src, mode, val):
            acc.finding("F02b", src[:80])
            return
        if mode == "eval" and _f02m_trigger(src):
            acc.finding("F02m", src[:80])
            return
        acc.violation("accepted-what-cpython-rejects", case, {"cpython": f"{val.msg} ({val.lineno}:{val.offset})"})


_NUM_KW = re.compile(r"(?<![\w.])((?:0[xX][0-9a-fA-F_]+|0[bB][01_]+|0[oO][0-7_]+|[0-9][0-9_]*\.?[0-9_]*(?:[eE][-+]?[0-9_]+)?[jJ]?|\.[0-9][0-9_]*(?:[eE][-+]?[0-9_]+)?[jJ]?))(or|from|as)\b")


def _f02b_trigger(src, mode, val):
    """F02b: a number glued to a keyword that CPython's end-of-number check does not allow there: `0or` (read as the start of an octal
    literal), `1from`, `1as` (only and/else/for/if/in/is/not/or may follow a number directly). Here the number pattern ends at the digits
    and the keyword is a NAME. Attribution: CPython's message is about the literal, the spelling is present, and the counterfactual - with a
    blank between number and keyword CPython accepts the text"""
    if not re.search(r"invalid (octal|decimal|hexadecimal|binary|imaginary) literal", str(val.msg)) or not _NUM_KW.search(src):
        return False
    return base.cpython(_NUM_KW.sub(r"\1 \2", src), mode)[0] == "tree"


def _f02m_trigger(src):
    """F02m: eval mode only - the text ends in a line of blanks without a line end (CPython gives eval input no implicit newline, so that
    line is an unexpected indent); counterfactual: without those blanks CPython accepts the expression"""
    m = re.search(r"[\n\r]([ \t\f]+)\Z", src)
    return bool(m) and base.cpython(src[: m.start(1)], "eval")[0] == "tree"


def _f08a_trigger(src):
    """F08a: CPython reports an unterminated single-quoted string literal and the xonsh token stream shows the pending-string symptom"""
    try:
        compile(src, "<c02>", "exec")
    except SyntaxError as e:
        if "unterminated string literal" not in str(e.msg):
            return False
    except ValueError:
        return False
    from peg_parser.tokenize import generate_tokens

    from .. import tokcheck

    out = base.guarded(lambda: list(generate_tokens(src)))
    if out.kind != "tree":
        return False
    mism, gaps = [], []
    v = tokcheck.tiling_violations(src, out.value, mismatched_out=mism, gaps_out=gaps)
    return bool(v) and tokcheck.pending_string_symptom(src, out.value, mism, gaps)


def join_tokens(seq):
    out = []
    for i, t in enumerate(seq):
        if t == "\n":
            out.append("\n")
        else:
            if out and out[-1] != "\n":
                out.append(" ")
            out.append(t)
    return "".join(out)


def token_mutants(rnd, src, k):
    toks = gen_py.py_tokens(src)
    if not toks:
        return
    real = [t for t in toks if t.type not in (pytok.ENDMARKER, pytok.NL, pytok.COMMENT, pytok.INDENT, pytok.DEDENT) and t.string]
    if len(real) < 2:
        return
    lines = src.splitlines(keepends=True)
    offs = [0]
    for l in lines:
        offs.append(offs[-1] + len(l))

    def ab(p):
        return offs[p[0] - 1] + p[1]

    for _ in range(k):
        t = rnd.choice(real)
        if t.type == pytok.NEWLINE and rnd.random() < 0.7:
            continue
        r = rnd.random()
        s, e = ab(t.start), ab(t.end)
        if r < 0.3:
            yield src[:s] + src[e:], "delete"
        elif r < 0.6:
            yield src[:s] + rnd.choice(VOCAB).replace("\n", " ") + " " + src[s:], "insert"
        elif r < 0.85:
            yield src[:s] + rnd.choice(VOCAB).replace("\n", " ") + src[e:], "replace"
        else:
            yield src[:s], "prefix"


FENCE_FAMILIES = [
    # (template, fillers): near misses around the lookaheads/cuts that fence xonsh alternatives and around ENDMARKER
    "x = 1 1\n", "x = a b\n", "f(a b)\n", "x = (a b)\n", "x = [a b]\n", "ls -l\n", "ls - l x\n", "echo hi\n", "a b c\n", "git commit -m 's'\n", "x = a.b c\n", "cd ..\n", "a.b.c d\n", "a - b c\n", "ls | grep x\n" if False else "ls | grep\n",
    "x = 1 if\n", "1 +\n", "x = \n", "= 1\n", "x == \n", "del\n", "del 1\n", "del a +\n", "del (a, 1)\n", "del a.b()\n", "del f(x)\n", "del -a\n", "del a b\n", "del a, b c\n", "del a;;\n",
    "f(x) = 1\n", "a + b = 1\n", "(a, 1) = x\n", "[a, b()] = x\n", "a.b() = 1\n", "-a = 1\n", "a if b else c = 1\n", "lambda: x = 1\n", "f() += 1\n", "(a, b) += 1\n", "a, b += 1\n", "[a] += 1\n", "1 += a\n",
    "for f() in x: pass\n", "for 1 in x: pass\n", "for a.b() in x: pass\n", "with a as f(): pass\n", "with a as 1: pass\n", "[x for f() in y]\n", "(a := 1) = 2\n", "a := 1\n", "x = (a.b := 1)\n", "f(a.b := 1)\n",
    "from a import (b\n", "from a import b,\n", "from a import (b,,)\n", "from a import\n", "from import a\n", "import a.\n", "import a as\n", "from . import\n", "from a import *, b\n", "from a import (*)\n", "import a.b as c.d\n",
    "x = 1 y = 2\n", "x = 1; ; y\n", "pass pass\n", "return return\n", "x = 1\n)\n", "x = 1 )\n", "x = ]\n", "()()() = 1\n", "x = 1\n  y = 2\n", "  x = 1\n", "if a:\npass\n", "if a: pass\n  else: pass\n",
    "f(a=1, b)\n", "f(**a, *b)\n", "f(a=1, a=)\n", "f(1=a)\n", "f(a.b=1)\n", "f(a for a in b, c)\n", "f(*)\n", "f(**)\n", "f(a, , b)\n", "f(,)\n", "f(a,, )\n",
    "def f(a, a=1, b): pass\n", "def f(*): pass\n", "def f(**a, b): pass\n", "def f(a=1, /, b): pass\n", "def f(*a, *b): pass\n", "def f(/): pass\n", "def f(a, /, /): pass\n", "def f(*, **a): pass\n", "lambda *: 0\n", "lambda a, /, /: 0\n",
    "class A(: pass\n", "class (A): pass\n", "class A[]: pass\n", "def f[](): pass\n", "type X[] = int\n", "type = \n", "type X = \n", "type X Y = int\n",
    "x = {a: }\n", "x = {: b}\n", "x = {a: b, c}\n", "x = {a, b: c}\n", "x = {**a: b}\n", "x = {*a: b}\n", "x = [a for]\n", "x = [for a in b]\n", "x = [a for b in]\n", "x = (a for b in c if)\n",
    "x = a[]\n", "x = a[1:2:3:4]\n", "x = a[,]\n", "x = a.1\n", "x = a..b\n", "x = a.\n", "x = .a\n", "x = a...b\n", "x = 1.a\n" if False else "x = 1 .\n", "x = ()()\n" if False else "x = (,)\n", "x = [,]\n", "x = {,}\n", "x = (a,,)\n",
    "x = not\n", "x = a not b\n", "x = a is is b\n", "x = a in in b\n", "x = a <> b\n", "x = a === b\n", "x = a =! b\n", "x = a ! b\n" if False else "x = a = = b\n", "x = ++\n", "x = a ** \n", "x = a @\n", "x = * a\n", "x = ** a\n", "x = *a\n" if False else "print(*)\n",
    "if a pass\n", "if: pass\n", "while: pass\n", "for a in: pass\n", "for in b: pass\n", "with: pass\n", "with a as: pass\n", "try: pass\n", "try:\n pass\nexcept\n", "try:\n pass\nfinally: pass\nexcept: pass\n", "else: pass\n", "elif a: pass\n",
    "match x:\n case: pass\n", "match x:\n case 1 2: pass\n", "match x:\n case a.b(): pass\n" if False else "match x:\n case f(): pass\n case 1 +: pass\n", "match x:\n case -a: pass\n", "match x:\n case {**a, 'b': 1}: pass\n", "match x:\n case [*a, *b]: pass\n", "match:\n case 1: pass\n",
    "x = yield = 1\n", "def f(): yield from\n", "def f(): return *\n" if False else "def f(): x = yield from\n", "await = 1\n" if False else "async = 1\n" if False else "async x\n", "async def\n", "async for a in b: pass x\n", "async with\n", "await\n", "lambda: yield\n" if False else "lambda x y: 0\n",
    "global\n", "global a.b\n", "nonlocal 1\n", "global a,\n", "assert\n", "assert a,\n", "raise from b\n", "raise a from\n", "return = 1\n", "pass = 1\n", "None = 1\n", "True = 1\n", "x.None = 1\n" if False else "x = None.\n", "def None(): pass\n", "class True: pass\n", "import None\n", "for None in x: pass\n",
    "@\ndef f(): pass\n", "@a\nx = 1\n", "@a b\ndef f(): pass\n", "@a\n@\nclass A: pass\n", "@(a\ndef f(): pass\n" if False else "@a\n\n\npass\n",
    "x = 'a' 'b' c\n", "x = 'a' 1\n", "x = 1 'a'\n", "x = a 'b'\n", "x = 'a'.'b'\n" if False else "x = 'a' . \n", "x = 0777\n", "x = 1__0\n", "x = 0b12\n", "x = 1e\n", "x = 0x\n", "x = 1_\n", "x = 1.2.3\n", "x = 1a\n", "x = 1if\n" if False else "x = 08\n",
    "x = (1\n", "x = [1\n", "x = {1\n", "x = 'a\n", "x = '''a\n", "x = 1 \\ 2\n", "x = 1 \\\n", "\\\n", "x = (1]\n", "x = [1)\n", "x = {1)\n", "x = (1}}\n",
]
# prefix operators and markers that must not repeat or stack (the lookaheads fencing them are easy to weaken unnoticed)
FENCE_FAMILIES += [
    "* *a = b\n", "* *a, = b\n", "[* *a] = b\n", "(* *a,) = b\n", "a, * *b = c\n", "for * *a in b: pass\n", "for x, * *a in b: pass\n", "x = [0 for * *a in b]\n", "with c as (* *a,): pass\n",
    "f(* *a)\n", "f(** **k)\n", "f(* **a)\n", "f(** *a)\n", "print(*, a)\n", "x = [* *a]\n", "x = {** **a}\n", "x = {* *a}\n", "x = (* *a,)\n", "x = * *a,\n", "def f(* *a): pass\n", "def f(** **k): pass\n",
    "def f(*a, *b): pass\n", "lambda * *a: 0\n", "lambda ** **k: 0\n", "del *a\n", "del * *a\n", "del [* *a]\n", "@ @d\ndef f(): pass\n", "from a import * *\n", "from a import *, *\n",
    "import * from a\n", "x = a if b else else c\n", "x = lambda lambda: 0\n", "x = a.. b\n", "x = a . . b\n", "x: int: int = 1\n", "x = y = = 1\n", "x += += 1\n", "x := := 1\n", "(x := y := 1)\n", "for for a in b: pass\n",
    "async async def f(): pass\n", "async def def f(): pass\n", "class class A: pass\n", "return return\n", "global global a\n", "match x:\n case case 1: pass\n", "type X = = int\n",
    "try try: pass\n", "a if if b else c\n", "[a for for b in c]\n", "[a for b in in c]\n", "[a for b in c if if d]\n", "f(a=b=c)\n", "f(a==)\n", "def f(a=): pass\n", "def f(a: : int): pass\n", "def f() -> -> int: pass\n",
    "x = a[b:c:d:e]\n", "x = a[::, ::, :::]\n", "x = not not\n", "x = ~\n", "x = - -\n", "x = a ** ** b\n", "x = a // // b\n", "x = a @ @ b\n", "x = a < < b\n", "x = a and and b\n", "x = a or or b\n", "x = a not not in b\n", "x = a is not not b\n",
]
# implicit concatenation of every ordered pair / some triples of literal kinds (CPython rejects bytes mixed with anything else), and
# f-string near misses (CPython rejects; the f-string support must not make the parser more liberal)
_LIT_KINDS = ["b'a'", "rb'b'", "'c'", "f'{d}'", "f'e'", "r'g'", "u'h'", "f''", "B\"i\"", "f'{j!r:>3}'", "'''k'''", "bR'''l'''"]
FENCE_FAMILIES += [f"x = {a} {b}\n" for a in _LIT_KINDS for b in _LIT_KINDS]
FENCE_FAMILIES += [f"x = ({a}\n     {b} {c})\n" for a, b, c in [(_LIT_KINDS[i], _LIT_KINDS[j], _LIT_KINDS[k]) for i, j, k in
                   [(2, 3, 0), (0, 3, 0), (3, 0, 3), (2, 2, 0), (0, 7, 0), (7, 0, 7), (3, 2, 1), (1, 9, 5), (9, 9, 0), (4, 0, 2)]]]
FENCE_FAMILIES += [
    "x = f'{'\n", "x = f'}'\n", "x = f'{}'\n", "x = f'{a'\n", "x = f'{a!}'\n", "x = f'{a!x}'\n", "x = f'{!r}'\n", "x = f'{a:{}}'\n", "x = f'{a b}'\n", "x = f'{a}}'\n", "x = f'{{a}'\n",
    "x = f'{a!r !s}'\n", "x = f'{a:>{'\n", "x = f'{a=!}'\n", "x = f'{=}'\n", "x = f'{a = = }'\n", "x = f'{lambda x: 1}'\n", "x = f'{a:{b:{c:{d}}}}'\n", "x = f'{a;b}'\n", "x = f'{a #}'\n",
    "x = f'{*a}'\n", "x = f'{**a}'\n", "x = f'{a:=1}'\n" if False else "x = f'{:}'\n", "x = f'{yield}' y\n", "x = f'a' b\n", "x = f'{a}' 1\n", "x = f'{a}'f\n", "x = f'{a' '}'\n", "x = f'{\n}'\n", "x = f'{a\n}'\n",
    # literal text that spells a keyword or operator; an escaped backslash before the line end; the closing quote inside an open format spec
    "f'{lambda:None}'\n", "f'{lambda:...}'\n", "f'{lambda:{b}}'\n", "f'{lambda x:{x}}'\n", "f'''{\n lambda:{b}}'''\n", "f'{a}{lambda:[1]}'\n", "f'{lambda:-1}'\n", "f'{a if b:else}'\n", "f'{a:)}' )\n", "x = f'\\\\\n'\n", "x = '\\\\\n'\n", "x = b'a\\\\\nb'\n", "f'''{a:'''\n}'''\n",
    'f"""{a:>{w}"""\n}"""\n', "f'{a:'\n}'\n",
    "x = fb'a'\n", "x = bf'a'\n", "x = fu'a'\n", "x = uf'a'\n", "x = ff'a'\n", "x = rfr'a'\n", "x = ub'a'\n", "x = ur'a'\n", "x = bu'a'\n",
]
FENCE_FAMILIES = [s for s in FENCE_FAMILIES if s]


INDENT_UNITS = [" ", "  ", "    ", "        ", "\t", "\t\t", " \t", "\t ", "    \t", "\t    ", "  \t  ", "\f ", " \f", "\t\f\t", "         "]
BLOCKS = ["if a:\n{0}b\n{1}c\n", "if a:\n{0}b\n{1}c\nd\n", "if a:\n{0}if b:\n{0}{1}c\n{1}{0}d\n", "def f():\n{0}x = 1\n\n{1}return x\n", "for i in y:\n{0}if i:\n{1}{0}j\n{0}k\n{1}l\n",
          "while a:\n{0}b\n# c\n{1}d\n", "if a:\n{0}b\nelse:\n{1}c\n{1}d\n", "try:\n{0}a\nexcept E:\n{1}b\n{0}c\n", "class A:\n{0}x = (1,\n{1}2)\n{1}y = 3\n"]
GLUE_KEYWORDS = ["and", "or", "if", "else", "in", "is", "not", "for", "import", "as", "lambda", "while", "None", "e", "E", "j", "x", "o", "b", "_", "l", "rb", "abc"]
CONT_BRACKETS = [("(", ")"), ("[", "]"), ("{", "}"), ('f"{', '}"'), ("f'''{", "}'''"), ('f"{a:{', '}}"'), ("'", "'"), ("f'", "'"), ('"""', '"""'), ("", "")]


def layout_cases():
    """three families outside the token-sequence enumeration: (1) indentation written with every pair of units (tabs, spaces, form feeds) -
    a level that compares differently under another tab width is a TabError; (2) a backslash continuation in every bracket-like context
    followed by an indented line; (3) every number spelling glued to a keyword or letter run"""
    for blk in BLOCKS:
        for u0 in INDENT_UNITS:
            for u1 in INDENT_UNITS:
                yield blk.format(u0, u1)
    for opener, closer in CONT_BRACKETS:
        for inner in ("a \\\n", "a \\\n ", "\\\n", "a, \\\n b", "a \\\n\\\n"):
            for tail in ("    z = 1\n", "  z\n", "\tz\n", "z = 1\n    w\n", "if z:\n    w\n  v\n"):
                yield f"y = {opener}{inner}{closer}\n{tail}"
                yield f"if b:\n    y = {opener}{inner}{closer}\n{tail}"
    for n in gen_py.NUMBERS[:400]:
        for k in GLUE_KEYWORDS:
            yield f"x = {n}{k} 2\n"
            yield f"x = [1 if {n}{k} 0 else 3]\n"
        # keywords that can follow an expression in their own statements
        yield f"raise {n}from y\n"
        yield f"with {n}as x: pass\n"
        yield f"import a.b; x = [i for i in {n}for j in y]\n"
        yield f"from m import ({n}as z)\n"
        yield f"try:\n    pass\nexcept E({n})as e:\n    pass\n"


ODD_BLANKS = ["\x0b", "\x1c", "\x1d", "\x1e", "\x1f", "\x85", "\xa0", "\u1680", "\u2000", "\u2003", "\u200a", "\u2028", "\u2029", "\u202f", "\u205f", "\u3000", "\ufeff", "\u200b", "\x7f", "\x08", "\x1b"]
ODD_WORD_CHARS = ["\u00b2", "\u00b9", "\u00bd", "\u0661", "\u0662\u0663", "\u2082", "\u2460", "\u0966", "\uff11", "\u00b3x", "x\u00b2", "a\u0661", "_\u00bd", "\u2160\u00b2", "\u3007\u00b2", "\u00aa\u00b2"]
WORD_SLOTS = ["x = {}\n", "{} = 1\n", "x.{}\n", "f({}=1)\n", "def f({}): pass\n", "def {}(): pass\n", "class {}: pass\n", "import {}\n", "import a.{} as b\n", "from {} import a\n", "from a import {}\n", "global {}\n",
              "for {} in y: pass\n", "lambda {}: 0\n", "with a as {}: pass\n", "match v:\n    case {}: pass\n", "match v:\n    case A({}=1): pass\n", "x = 1 {}\n", "x = {}1\n", "x = 1{}\n", "try:\n    pass\nexcept E as {}:\n    pass\n",
              "x = f'{{{}}}'\n", "x = f'{{a!{}}}'\n", "def f[{}](): pass\n", "type {} = int\n", "x = [{} for a in b]\n", "x = (a := {})\n", "@{}\ndef f(): pass\n", "del {}\n", "nonlocal {}\n"]


def lexical_cases():
    """what the token-level enumeration cannot hold, because CPython's own tokenizer already refuses it: (1) characters that are white space
    for str.isspace but not for Python, between and inside tokens; (2) runs of word characters that are no identifiers (superscripts,
    non-ASCII digits), in every position a name can take; (3) a quote left open on its line and closed on a later one; (4) f-string fields
    whose colon or exclamation mark is not where the field syntax wants it (a lambda anywhere at the level of the field, blanks after '!')"""
    for ch in ODD_BLANKS:
        for t in ("a ={}1\n", "a{}= 1\n", "a = 1{}\n", "{}a = 1\n", "a = (1,{}2)\n", "if a:{}\n    b\n", "if a:\n    b{}\n", "if a:\n{}    b\n", "if a:\n    {}b\n", "x = a{}.b\n", "f({})\n", "a = 1 {} + 2\n", "import{}a\n", "x = 1{}if a else 2\n",
                  "def f():{}return 1\n", "x = [1,\n{}2]\n", "x = f'{{a{}}}'\n", "x = f'{{a!r{}}}'\n", "a = 1\n{}\nb = 2\n", "a = 1 \\\n{}+ 2\n", "x = a{}b\n", "x = 'a'{}'b'\n", "{}\n", "a = 1;{}b = 2\n", "lambda{}: 0\n", "not{}a\n"):
            yield t.format(ch)
    for w in ODD_WORD_CHARS:
        for t in WORD_SLOTS:
            yield t.format(w)
    for q in ("'", '"'):
        for head in ("x = {q}abc", "x = {q}", "f({q}a, b", "x = a + {q}it", "x = b{q}abc", "x = r{q}ab\\", "x = {q}ab\\\\", "if {q}a", "x = [{q}a,", "x = ({q}a", "x = {q}a{q} {q}b", "x = u{q}a # c", "print({q}a{q} + {q}"):
            for tail in ("{q}\n", "{q} + f(1)\n", "y = {q}d{q}\n", "{q}, 2)\n", "    {q}\n", "b{q}\n", "{q}]\n", "# {q}\n{q}\n", "\n{q}\n", "y = 1\nz = {q}\n", "{q}{q}{q}\n", "{q}; z = 1\n", "pass\n{q}k{q} {q}\n"):
                yield (head + "\n" + tail).format(q=q)
    for n in (100, 101, 120):
        yield "".join(" " * i + "if 1:\n" for i in range(n)) + " " * n + "pass\n"
        yield "def f():\n" + "".join(" " * (i + 1) + "while x:\n" for i in range(n)) + " " * (n + 1) + "y\n"
    for t in ("x = 1 # {}\n", "x = f'a{}b'\n", "# {}\n", "x = f\"\"\"{{a}}{}\"\"\"\n", "x = 1{}\n", "\"\"\"{}\"\"\"\n", "x = rf'{}{{a}}'\n", "if a:\n    pass # {}\n", "x = f'{{a:{}}}'\n", "x = 'a{}'\n", "x {} = 1\n"):
        yield t.format("\0")
    for field in ("{x! r}", "{x!  s}", "{x !r}", "{x!\tr}", "{x! r:>3}", "{x = ! r}", "{x!\\\nr}", "{x!}", "{x! }", "{x!r !s}", "{x!rs}", "{x! ra}", "{!r}", "{x!r:}", "{x !r :}",
                  "{lambda x:{1}}", "{1,lambda y:{y}}", "{lambda :{1}}", "{x if y else lambda :{1}}", "{lambda x:{1}!r}", "{lambda x:{1}:{2}}", "{a or lambda:{b}}", "{not lambda:{b}}", "{-1, lambda:{b}{c}}", "{*a, lambda:{b}}",
                  "{ lambda:{b}}", "{\\\nlambda x:{1}}", "{#c\nlambda x:{1}}", "{a if lambda:{b} else c}", "{lambda a=(1):{a}}", "{lambda *a, **k:{a}}", "{x:=lambda:{1}}", "{await lambda:{1}}", "{yield lambda:{1}}",
                  "{lambda: (yield)}", "{a, b = 1}", "{a; b}", "{a:{b:{c:{d}}}}", "{a!r!s}", "{a:!r}", "{a=!r=}", "{a==}", "{a = = }", "{}", "{ }", "{!}", "{:}", "{=}", "{a b}", "{a,,}", "{a:{}}", "{a:{b!}}", "{a:{b c}}",
                  # a quote inside a format spec (the literal's own, the enclosing literal's, the other one), and a spec running over a line end
                  "{x:'}", "{x:\"}", "{x:'>5}", "{x:a\nb}", "{x!r:\"\"}", "{x:{y}'}", "{x:'{y}}"):
        for pre, post in (("f'", "'"), ("f'''", "'''"), ("rf\"", "\""), ("x = f'a", "b' 'c'"), ("f'{z}", "{z}'"), ("print(f\"\"\"", "\"\"\")"), ("f'{f\"", "\"}'"),
                          ("f\"{f'", "'}\""), ("f\"\"\"{f'", "'}\"\"\""), ("f'''{f\"", "\"}'''")):
            yield pre + field + post + "\n"


def run_shard(shard):
    acc = Acc()
    if "replay" in shard:
        c = shard["replay"]
        check_case(acc, c["src"], c["mode"], "replay")
        return acc.dump()
    rnd = random.Random(f"{shard['seed']}:{shard['kind']}:{shard.get('idx', 0)}")
    kind = shard["kind"]
    if kind == "enum":
        vocab = VOCAB if shard["vocab"] == "full" else CORE
        n = shard["length"]
        first = vocab[shard["first_lo"] : shard["first_hi"]]
        for f in first:
            for rest in itertools.product(vocab, repeat=n - 1):
                seq = (f, *rest)
                src = join_tokens(seq)
                check_case(acc, src if src.endswith("\n") else src + "\n", "exec", f"enum{n}")
                if "\n" not in seq:
                    check_case(acc, src, "eval", f"enum{n}")
    elif kind == "fence":
        for s in FENCE_FAMILIES:
            check_case(acc, s, "exec", "fence")
            check_case(acc, s.rstrip("\n"), "eval", "fence")
            for m, how in token_mutants(rnd, s, shard.get("k", 6)):
                check_case(acc, m, "exec", "fence-" + how)
        for s in gen_py.SEEDS:
            for m, how in token_mutants(rnd, s, shard.get("k", 6)):
                check_case(acc, m, "exec", "seed-" + how)
            # trailing garbage after a complete program (ENDMARKER requirement)
            for g in (")", "]", "}", "a", "1", "'s'", ":", "=", "else", "\n)", "\n    x", " \\"):
                check_case(acc, s.rstrip("\n") + " " + g + "\n", "exec", "trailing")
        for e in ("a", "a + b", "f(x)", "[1, 2]", "lambda: 0", "a if b else c"):
            for g in (")", "]", "a", "1", "=", "= 1", ":", ";", "; b", "\nb", "else", "for", "\n)", ":= 1", "pass"):
                check_case(acc, e + " " + g, "eval", "trailing-eval")
            check_case(acc, e + "\n" + e, "eval", "trailing-eval")
    elif kind == "layout":
        for s in layout_cases():
            check_case(acc, s, "exec", "layout")
        for s in lexical_cases():
            check_case(acc, s, "exec", "lexical")
        for e in ("a", "a + b", "f(x)", "[1,\n 2]", "lambda: 0", "(a\n)", "a if b else c", "x\\\n + 1"):
            for tail in ("\n ", "\n\t", "\n   ", "\n\n ", "\r\n ", " \n \n ", "\n\f "):
                check_case(acc, e + tail, "eval", "lexical")
    elif kind == "corpus":
        stmts = []
        for path in shard["files"]:
            text = corpus.read(path)
            if text:
                stmts.extend(s for s in corpus.statements(text) if len(s) < 1200)
        rnd.shuffle(stmts)
        for s in stmts[: shard["n"]]:
            for m, how in token_mutants(rnd, s, shard.get("k", 5)):
                check_case(acc, m, "exec", "corpus-" + how)
    return acc.dump()


def plan(tier, seed):
    rnd = random.Random(seed)
    q = tier == "quick"
    shards = [{"kind": "fence", "seed": seed, "k": 6 if q else 40}, {"kind": "layout", "seed": seed}]
    nv = len(VOCAB)
    for L in (1, 2, 3):
        step = 4 if L == 3 else nv
        for lo in range(0, nv, step):
            shards.append({"kind": "enum", "seed": seed, "vocab": "full", "length": L, "first_lo": lo, "first_hi": lo + step})
    if not q:
        for lo in range(len(CORE)):
            shards.append({"kind": "enum", "seed": seed, "vocab": "core", "length": 4, "first_lo": lo, "first_hi": lo + 1})
    files = corpus.files()
    rnd.shuffle(files)
    for i in range(16 if q else 160):
        shards.append({"kind": "corpus", "seed": seed, "idx": i, "files": files[i * 6 : i * 6 + 6], "n": 150 if q else 500, "k": 5})
    return {"shards": shards}


def finish(acc, tier, seed):
    need = 150000 if tier == "quick" else 600000
    return [f"only {acc.evals} rejected-by-CPython cases evaluated (< {need})"] if acc.evals < need else []


def evidence_extra(acc, tier, seed):
    return {"exhaustive_part": f"all token sequences of length <= 3 over the {len(VOCAB)}-token vocabulary in both modes" + ("" if tier == "quick" else f" and of length 4 over the {len(CORE)}-token core vocabulary")}
