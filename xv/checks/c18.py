"""C18 - parsing work grows at most linearly with input size and nesting depth."""
from __future__ import annotations

import io
import random
import re
import sys
import threading
import time

from .. import base, clock
from ..acc import Acc

LEVEL = "exploration"
RULE = ("size-parameterised input families (nesting of every bracket/call/lambda/ternary/dict/comprehension/subprocess/block form, long chains and "
        "lists, and invalid variants that force the second diagnostic pass) are parsed at doubling sizes with a counting Tokenizer subclass passed "
        "to the public constructor; violation = ops(F(2n)) > 2.3*ops(F(n)) at two consecutive doublings (ops = getnext+peek+reset calls, well above "
        "start-up cost); a case = (family, variant, size); distinct non-trivial = distinct cases with >= 16 tokens that completed. "
        "Work inside C calls makes no steps and no token reads, so 12 tokenizer families (long multi-line strings, a quote left open followed by n "
        "tokens, n combining marks, n backticks, ...) are timed: CPU time of generate_tokens, best of three, more than tripling at two consecutive "
        "doublings with >= 0.15 s on the clock is a violation; 2 file families count the lines parse_file reads from the file (<= 4n + 20)")
ASSUMPTIONS = ["the timed families use process CPU time of a single-threaded worker (not wall-clock time); a quadratic scan quadruples per doubling, a linear one doubles, and the threshold sits at 3 with a floor of 0.15 s",
               "run in a thread with a 1 GB stack and a raised recursion limit so that depth is limited by work, not by RecursionError",
               "the ratio test is scale-free: a slower but linear implementation does not trip it"]

RATIO = 2.3
MIN_OPS = 4000


def worker_init():
    base.load_repo()
    import peg_parser.parser
    import peg_parser.subheader
    import peg_parser.tokenize
    import peg_parser.tokenizer

    clock.install([peg_parser.parser, peg_parser.subheader, peg_parser.tokenize, peg_parser.tokenizer])


def measure(src, mode="exec", budget=int(3e7), py_version=None):
    """(ops, steps, outcome kind) of one parse with the counting token source"""
    from peg_parser.tokenize import generate_tokens
    from peg_parser.tokenizer import Tokenizer

    cls = base.load_repo()

    class Counting(Tokenizer):
        ops = 0

        def getnext(self):
            Counting.ops += 1
            return super().getnext()

        def peek(self):
            Counting.ops += 1
            return super().peek()

        def reset(self, index):
            Counting.ops += 1
            return super().reset(index)

    res = {}

    def run():
        sys.setrecursionlimit(1_000_000)
        tok = Counting(generate_tokens(io.StringIO(src).readline))
        parser = cls(tok, py_version=py_version) if py_version else cls(tok)
        clock.start(budget)
        try:
            try:
                tree = parser.parse("file" if mode == "exec" else "eval")
                res["kind"] = "tree" if tree is not None else "none"
            except SyntaxError:
                res["kind"] = "syntax"
            except base.BudgetExhausted:
                res["kind"] = "budget"
            except RecursionError:
                res["kind"] = "recursion"
            except BaseException as e:  # noqa: BLE001
                res["kind"] = "other:" + type(e).__name__
        finally:
            res["steps"] = clock.stop()
            res["ops"] = Counting.ops
            res["tokens"] = len(tok._tokens)

    threading.stack_size(1 << 30)
    t = threading.Thread(target=run)
    t.start()
    t.join()
    threading.stack_size(0)
    return res


def nest(o, c, inner="a"):
    return lambda n: "x = " + o * n + inner + c * n + "\n"


# name -> (generator(n) -> source, kind) ; kind: "nest" (n = depth) or "flat" (n = length)
FAMILIES = {
    "paren": (nest("(", ")"), "nest"),
    "list": (nest("[", "]"), "nest"),
    "set": (nest("{", "}"), "nest"),
    "call": (lambda n: "x = " + "f(" * n + "a" + ")" * n + "\n", "nest"),
    "subscript": (lambda n: "x = a" + "[b" * n + "]" * n + "\n", "nest"),
    "lambda": (lambda n: "x = " + "lambda: " * n + "a\n", "nest"),
    "ternary": (lambda n: "x = " + "a if b else (" * n + "c" + ")" * n + "\n", "nest"),
    "dict": (lambda n: "x = " + "{1: " * n + "a" + "}" * n + "\n", "nest"),
    "listcomp": (lambda n: "x = " + "[" * n + "a" + " for a in b]" * n + "\n", "nest"),
    "genexp_call": (lambda n: "x = " + "f(" * n + "a" + " for a in b)" * n + "\n", "nest"),
    "subproc": (lambda n: "x = " + "$(echo " * n + "a" + ")" * n + "\n", "nest"),
    "subproc_bang": (lambda n: "x = " + "![echo " * n + "a" + "]" * n + "\n", "nest"),
    "envexpr": (lambda n: "x = " + "${" * n + "'a'" + "}" * n + "\n", "nest"),
    "pyexpr_in_subproc": (lambda n: "x = " + "$(echo @(" * n + "a" + "))" * n + "\n", "nest"),
    "unary": (lambda n: "x = " + "-" * n + "a\n", "nest"),
    "not": (lambda n: "x = " + "not " * n + "a\n", "nest"),
    "await_paren": (lambda n: "async def f():\n    x = " + "(await " * n + "a" + ")" * n + "\n", "nest"),
    "power": (lambda n: "x = " + "a ** " * n + "b\n", "nest"),
    "blocks": (lambda n: "".join(" " * i + "if a:\n" for i in range(n)) + " " * n + "pass\n", "nest"),
    "while_blocks": (lambda n: "".join(" " * i + "while a:\n" for i in range(n)) + " " * n + "b = 1\n", "nest"),
    "with_items_nested": (lambda n: "".join(" " * i + "with a as b:\n" for i in range(n)) + " " * n + "pass\n", "nest"),
    "def_nested": (lambda n: "".join(" " * i + "def f(a, b=1):\n" for i in range(n)) + " " * n + "return a\n", "nest"),
    "fstring_nested": (lambda n: "x = " + "f'{" * 1 + "(" * n + "a" + ")" * n + "}'" + "\n", "nest"),
    "match_seq": (lambda n: "match x:\n    case " + "[" * n + "a" + "]" * n + ":\n        pass\n", "nest"),
    "tuple_target": (lambda n: "(" * n + "a" + ",)" * n + " = x\n", "nest"),
    "star_list_target": (lambda n: "[" * n + "*a" + "]" * n + " = x\n", "nest"),
    "call_macro_brackets": (lambda n: "f!(" + "(" * n + "a" + ")" * n + ")\n", "nest"),
    "del_tuple": (lambda n: "del " + "(" * n + "a" + ",)" * n + "\n", "nest"),
    "del_list": (lambda n: "del " + "[" * n + "a" + "]" * n + "\n", "nest"),
    "del_paren": (lambda n: "del " + "(" * n + "a" + ")" * n + "\n", "nest"),
    "for_target": (lambda n: "for " + "(" * n + "a" + ",)" * n + " in x:\n    pass\n", "nest"),
    "with_target": (lambda n: "with c as " + "(" * n + "a" + ",)" * n + ":\n    pass\n", "nest"),
    # macro headers are parsed twice by design (look-ahead, then the statement) with the tokenizer in a special mode
    "with_macro_target": (lambda n: "with! c as " + "(" * n + "a" + ",)" * n + ":\n    raw body\n", "nest"),
    "with_macro_target_pairs": (lambda n: "with! f() as " + "(" * n + "a" + ", b)" * n + ":\n    raw body\n", "nest"),
    "with_macro_list_target": (lambda n: "with! c as " + "[" * n + "a" + ", b]" * n + ":\n    raw body\n", "nest"),
    "with_macro_ctx_calls": (lambda n: "with! " + "f(" * n + "1" + ")" * n + " as a:\n    raw body\n", "nest"),
    "with_macro_ctx_parens": (lambda n: "with! " + "(" * n + "c" + ")" * n + ":\n    raw body\n", "nest"),
    "with_macro_oneline": (lambda n: "with! c as " + "(" * n + "a" + ", b)" * n + ": raw body\n", "nest"),
    "with_target_pairs": (lambda n: "with c as " + "(" * n + "a" + ", b)" * n + ":\n    pass\n", "nest"),
    "for_target_pairs": (lambda n: "for " + "(" * n + "a" + ", b)" * n + " in x:\n    pass\n", "nest"),
    "call_macro_callee_nest": (lambda n: "f(" * n + "g!(raw text)" + ")" * n + "\n", "nest"),
    "subproc_macro_nest": (lambda n: "$(echo " + "@$(echo " * n + "@$(cmd! raw  text)" + ")" * n + " tail)\n", "nest"),
    "comp_target": (lambda n: "x = [1 for " + "(" * n + "a" + ",)" * n + " in y]\n", "nest"),
    "star_tuple_target": (lambda n: "(*" * n + "a" + ",)" * n + " = x\n", "nest"),
    "subscript_target": (lambda n: "a" + "[b" * n + "]" * n + " = 1\n", "nest"),
    "env_target": (lambda n: "${" * n + "'a'" + "}" * n + " = 1\n", "nest"),
    "type_param_bound": (lambda n: "def f[T: " + "list[" * n + "int" + "]" * n + "](): pass\n", "nest"),
    "type_alias": (lambda n: "type X[T] = " + "list[" * n + "T" + "]" * n + "\n", "nest"),
    "kwarg_call": (lambda n: "x = " + "f(k=" * n + "1" + ")" * n + "\n", "nest"),
    "starred_call": (lambda n: "x = " + "f(*" * n + "a" + ")" * n + "\n", "nest"),
    "dstarred_call": (lambda n: "x = " + "f(**" * n + "a" + ")" * n + "\n", "nest"),
    "paren_strings": (lambda n: "x = " + "(" * n + "'a' 'b'" + ")" * n + "\n", "nest"),
    "starred_list": (lambda n: "x = " + "[*" * n + "a" + "]" * n + "\n", "nest"),
    "walrus": (lambda n: "x = " + "(a := " * n + "1" + ")" * n + "\n", "nest"),
    "lambda_default": (lambda n: "x = " + "lambda a=" * n + "1" + ": 0" * n + "\n", "nest"),
    "slice_nest": (lambda n: "x = " + "a[" * n + "1" + ":2]" * n + "\n", "nest"),
    "decorator_call": (lambda n: "@" + "f(" * n + "a" + ")" * n + "\ndef g(): pass\n", "nest"),
    "class_bases": (lambda n: "class A(" + "f(" * n + "B" + ")" * n + "): pass\n", "nest"),
    "return_tuple": (lambda n: "def f():\n    return " + "(" * n + "a" + ",)" * n + "\n", "nest"),
    "yield_paren": (lambda n: "def f():\n    x = " + "(yield " * n + "a" + ")" * n + "\n", "nest"),
    "not_paren": (lambda n: "x = " + "not (" * n + "a" + ")" * n + "\n", "nest"),
    "bool_paren": (lambda n: "x = " + "(a or " * n + "b" + ")" * n + "\n", "nest"),
    "compare_paren": (lambda n: "x = " + "(a < " * n + "b" + ")" * n + "\n", "nest"),
    "try_blocks": (lambda n: "".join(" " * i + "try:\n" for i in range(n)) + " " * n + "pass\n" + "".join(" " * i + "finally:\n" + " " * (i + 1) + "pass\n" for i in reversed(range(n))), "nest"),
    "for_blocks": (lambda n: "".join(" " * i + "for a in b:\n" for i in range(n)) + " " * n + "pass\n", "nest"),
    "class_blocks": (lambda n: "".join(" " * i + "class A:\n" for i in range(n)) + " " * n + "x = 1\n", "nest"),
    "match_blocks": (lambda n: "".join(" " * (2 * i) + "match a:\n" + " " * (2 * i + 1) + "case 1:\n" for i in range(n)) + " " * (2 * n) + "pass\n", "nest"),
    "match_class": (lambda n: "match x:\n    case " + "A(b=" * n + "1" + ")" * n + ":\n        pass\n", "nest"),
    "match_mapping": (lambda n: "match x:\n    case " + "{1: " * n + "a" + "}" * n + ":\n        pass\n", "nest"),
    "match_group": (lambda n: "match x:\n    case " + "(" * n + "a" + ")" * n + ":\n        pass\n", "nest"),
    "match_star": (lambda n: "match x:\n    case " + "[*_, " * n + "a" + "]" * n + ":\n        pass\n", "nest"),
    "binary_chain": (lambda n: "x = " + "a + " * n + "b\n", "flat"),
    "compare_chain": (lambda n: "x = " + "a < " * n + "b\n", "flat"),
    "bool_chain": (lambda n: "x = " + "a and " * n + "b or c\n", "flat"),
    "xonsh_bool_chain": (lambda n: "x = " + "![a] && " * n + "![b] || $(c)\n", "flat"),
    "attr_chain": (lambda n: "x = a" + ".b" * n + "\n", "flat"),
    "call_chain": (lambda n: "x = a" + "(b)" * n + "\n", "flat"),
    "subscript_chain": (lambda n: "x = a" + "[b]" * n + "\n", "flat"),
    "args": (lambda n: "f(" + "a, " * n + "k=1)\n", "flat"),
    "kwargs": (lambda n: "f(" + "".join(f"k{i}=v, " for i in range(n)) + ")\n", "flat"),
    "list_items": (lambda n: "x = [" + "a, " * n + "]\n", "flat"),
    "dict_items": (lambda n: "x = {" + "a: b, " * n + "}\n", "flat"),
    "tuple_targets": (lambda n: "a, " * n + "b = x\n", "flat"),
    "chain_assign": (lambda n: "a = " * n + "b\n", "flat"),
    "imports": (lambda n: "from m import (" + "a as b, " * n + ")\n", "flat"),
    "import_dotted": (lambda n: "import a" + ".b" * n + "\n", "flat"),
    "statements": (lambda n: "x = f(a, b)\n" * n, "flat"),
    "semicolons": (lambda n: "x = 1; " * n + "y = 2\n", "flat"),
    "params": (lambda n: "def f(" + "".join(f"a{i}: int = 1, " for i in range(n)) + "): pass\n", "flat"),
    "lambda_params": (lambda n: "x = lambda " + "".join(f"a{i}, " for i in range(n)) + "z: 0\n", "flat"),
    "decorators": (lambda n: "@d(1)\n" * n + "def f(): pass\n", "flat"),
    "elifs": (lambda n: "if a:\n    pass\n" + "elif b:\n    pass\n" * n + "else:\n    pass\n", "flat"),
    "excepts": (lambda n: "try:\n    pass\n" + "except E as e:\n    pass\n" * n, "flat"),
    "with_items": (lambda n: "with " + "a as b, " * n + "c:\n    pass\n", "flat"),
    "match_cases": (lambda n: "match x:\n" + "    case [1, y]:\n        pass\n" * n, "flat"),
    "match_or": (lambda n: "match x:\n    case " + "1 | " * n + "2:\n        pass\n", "flat"),
    "strings_concat": (lambda n: "x = (" + "'a' " * n + ")\n", "flat"),
    "fstring_fields": (lambda n: "x = f'" + "{a} b " * n + "'\n", "flat"),
    "subproc_words": (lambda n: "$(echo " + "word " * n + ")\n", "flat"),
    "subproc_glued": (lambda n: "$(echo " + "a@(b)" * n + ")\n", "flat"),
    "env_stmts": (lambda n: "$A = $(ls -l)\n" * n, "flat"),
    "macro_args": (lambda n: "f!(" + "a b, " * n + "c)\n", "flat"),
    "with_macro_lines": (lambda n: "with! a:\n" + "    some raw line\n" * n + "x = 1\n", "flat"),
    "comprehension_clauses": (lambda n: "x = [a " + "for b in c if d " * n + "]\n", "flat"),
    "slices": (lambda n: "x = a[" + "1:2, " * n + "]\n", "flat"),
    "global_names": (lambda n: "def f():\n    global " + "a, " * n + "b\n", "flat"),
    "del_targets": (lambda n: "del " + "a, " * n + "b\n", "flat"),
    "class_body": (lambda n: "class A:\n" + "    x: int = 1\n" * n, "flat"),
}

# invalid variants: name -> transformation of a valid source
# families parsed under a lowered py_version: the version-gated construct is accepted by the grammar and refused afterwards (a SyntaxError
# is the expected outcome of the "valid" variant); whatever bookkeeping the version checks do must not disturb the packrat cache
def _in_blocks(head, body, tail=""):
    return lambda n: "".join(" " * i + head + "\n" for i in range(n)) + "".join(" " * n + l + "\n" for l in body.split("\n")) + tail


FAMILIES.update({
    "list_then_subscripts": (lambda n: "x = [" + "1, " * n + "]" + "[0]" * n + "\n", "flat"),
    "dict_then_calls": (lambda n: "x = {" + "1: 2, " * n + "}" + ".get(1)" * n + "\n", "flat"),
    "tuple_then_attrs_and_calls": (lambda n: "x = (" + "a, " * n + ")" + ".b(c)" * n + "\n", "flat"),
    "subproc_then_trailers": (lambda n: "x = $(echo " + "a " * n + ")" + "[0](1)" * n + "\n", "flat"),
    "gated_type_in_ifs": (_in_blocks("if a:", "type X = int"), "nest"),
    "gated_generic_def_in_ifs": (_in_blocks("if a:", "def f[T](x: T) -> T: pass"), "nest"),
    "gated_except_star_in_ifs": (_in_blocks("if a:", "try:\n    pass\nexcept* E:\n    pass"), "nest"),
    "gated_type_in_whiles": (_in_blocks("while a:", "type X[T] = list[T]"), "nest"),
    "gated_class_in_defs": (_in_blocks("def g():", "class C[T]: pass"), "nest"),
    "gated_type_in_trys": (lambda n: "".join(" " * i + "try:\n" for i in range(n)) + " " * n + "type X = int\n" + "".join(" " * i + "finally:\n" + " " * (i + 1) + "pass\n" for i in reversed(range(n))), "nest"),
    "gated_types_flat": (lambda n: "type X = int\n" * n, "flat"),
    "gated_generic_defs_flat": (lambda n: "def f[T](): pass\n" * n, "flat"),
    "gated_type_in_with_items": (lambda n: "with " + ", ".join(f"c{i} as v{i}" for i in range(n)) + ":\n    type X = int\n", "flat"),
})
VERSIONED = {name: (3, 10) for name in FAMILIES if name.startswith("gated_")}

INVALID = {
    "unclosed": lambda s: s.rstrip("\n").rstrip(")]}") + "\n",
    "extra_token": lambda s: s.rstrip("\n") + " 1 1\n",
    "double_eq": lambda s: s.rstrip("\n") + " = = 1\n",
    "bad_target": lambda s: s.rstrip("\n") + " = 1\n",
    "missing_colon": lambda s: s.replace(":\n", "\n", 1),
    "trailing_garbage": lambda s: s + ")\n",
    "leading_garbage": lambda s: ") " + s,
    "keyword_inside": lambda s: s.replace("a", "import", 1),
    "wrong_closer": lambda s: _wrong_closer(s, "all"),
    "wrong_last_closer": lambda s: _wrong_closer(s, "last"),
    "wrong_first_closer": lambda s: _wrong_closer(s, "first"),
}
_OTHER = {")": "]", "]": ")", "}": ")"}


def _wrong_closer(s, how):
    """the trailing run of closing brackets replaced by one wrong closer (all), or with its last / first closer exchanged for a wrong one"""
    body = s.rstrip("\n")
    run = len(body) - len(body.rstrip(")]}"))
    if run == 0:
        return s
    head, tail = body[: len(body) - run], body[len(body) - run :]
    if how == "all":
        return head + _OTHER[tail[0]] + "\n"
    if how == "last":
        return head + tail[:-1] + _OTHER[tail[-1]] + "\n"
    return head + _OTHER[tail[0]] + tail[1:] + "\n"


# families whose nesting is by indentation, not by brackets: finding F18a (diagnostic pass over nested *brackets*) never applies to them
BLOCK_FAMILIES = {"gated_type_in_ifs", "gated_generic_def_in_ifs", "gated_except_star_in_ifs", "gated_type_in_whiles", "gated_class_in_defs", "gated_type_in_trys", "blocks", "while_blocks", "with_items_nested", "def_nested", "try_blocks", "for_blocks", "class_blocks", "match_blocks"}


# finding F18a is quadratic growth: a doubling multiplies the work by about four. Anything steeper (cubic: eight, exponential: unbounded), or a
# size that exhausts the step budget, is not that finding
F18A_MAX_RATIO = 5.0
_SUBPROC_OPENER = re.compile(r"\$\(|\$\[|!\(|!\[")


def doubling_verdict(series):
    """series: list of (n, ops). violation iff two consecutive doublings exceed RATIO with ops >= MIN_OPS"""
    bad = 0
    worst = 0.0
    for (n1, o1), (n2, o2) in zip(series, series[1:]):
        if o1 < MIN_OPS:
            bad = 0
            continue
        r = o2 / o1
        worst = max(worst, r)
        if r > RATIO:
            bad += 1
            if bad >= 2:
                return True, worst
        else:
            bad = 0
    return False, worst


def run_family(acc, name, variant, sizes):
    gen, kind = FAMILIES[name]
    if name in BLOCK_FAMILIES:
        # CPython's limit of 100 indentation levels is the parser's as well: the deepest size stays below it
        cap = 48 if name in ("match_blocks", "try_blocks") else 96  # (two levels of indentation per nesting level there)
        sizes = list(dict.fromkeys(min(n, cap) for n in sizes))
    series = []
    steps_series = []
    case = {"family": name, "variant": variant, "sizes": sizes}
    outcome = None
    for n in sizes:
        src = gen(n)
        if variant != "valid":
            src2 = INVALID[variant](src)
            if src2 == src:
                acc.count("variant_not_applicable")
                return
            src = src2
        r = measure(src, py_version=VERSIONED.get(name))
        acc.evals += 1
        acc.count("parses")
        if name in VERSIONED:
            acc.count("parses_under_lowered_py_version")
        if r["kind"] in ("budget",):
            # a size whose parse exhausts the step budget although half the size completed
            acc.count("budget_exhausted")
            series.append((n, float("inf")))
            break
        if r["kind"].startswith("other") or r["kind"] in ("recursion", "none"):
            acc.count("aborted_" + r["kind"])
            break
        if variant == "valid" and r["kind"] != ("syntax" if name in VERSIONED else "tree"):
            acc.count("valid_family_rejected")
            acc.seen("valid_families_rejected", name)
            break
        outcome = r["kind"]
        if r["tokens"] >= 16:
            acc.nontrivial(base.h64(name, variant, n))
        series.append((n, r["ops"]))
        steps_series.append((n, r["steps"]))
        acc.maxi("max_ops", r["ops"])
        acc.maxi("max_steps", r["steps"])
    if len(series) < 3:
        acc.count("series_too_short")
        return
    viol, worst = doubling_verdict(series)
    acc.seen("worst_ratio_by_family", (f"{name}/{variant}", round(worst, 2)))
    if len(acc.samples) < 6:
        acc.sample({"family": name, "variant": variant, "series": series[-4:], "worst_ratio": round(worst, 2), "outcome": outcome})
    if viol:
        detail = {"series_n_ops": series, "steps": steps_series, "worst_ratio": round(worst, 2)}
        quadratic_at_most = worst <= F18A_MAX_RATIO and all(o != float("inf") for _, o in series)
        if variant != "valid" and outcome == "syntax" and FAMILIES[name][1] == "nest" and name not in BLOCK_FAMILIES and quadratic_at_most:
            acc.maxi("max_ratio_among_f18a_candidates_x100", int(worst * 100))
            acc.finding_candidates = getattr(acc, "finding_candidates", [])
            acc.seen("superlinear_invalid_nesting", f"{name}/{variant}")
            acc.count("f18a_candidates")
            # F18c: unclosed / wrongly closed nested subprocess brackets (cmd_group rescans the words up to the first closer from every opener)
            fid = "F18c" if _SUBPROC_OPENER.search(gen(3)) and variant in ("unclosed", "wrong_closer", "wrong_last_closer", "wrong_first_closer", "keyword_inside") else "F18a"
            acc.violations.append({"kind": "F18a-candidate", "finding": fid, "case": case, "detail": detail})
        else:
            acc.violation("superlinear-work", case, detail)


# --- tokenizer / file-reading time (the part of "no input family takes quadratic time" that the step counter cannot see) --------------------
# Work done inside C calls (copying a growing string, a regular expression that scans to the end of the line again and again) makes no
# Python-level steps and no token reads. The only observable is CPU time: process CPU time of this single-threaded worker, the best of three
# runs, compared at doubling sizes. A doubling that multiplies the time by more than TIME_RATIO twice in a row, with at least TIME_FLOOR
# seconds on the clock, is reported; a family whose largest size runs in less than TIME_FLOOR is plainly not quadratic at that size.
TIME_RATIO = 3.0
TIME_FLOOR = 0.15

TIME_FAMILIES = {
    "long_triple_string": lambda n: "x = '''\n" + ("a" * 39 + "\n") * (4 * n) + "'''\n",
    "long_fstring": lambda n: "x = f'''\n" + ("{a} text text text text\n") * n + "'''\n",
    "long_bytes_continued": lambda n: "x = b'" + ("abc\\\n") * (4 * n) + "'\n",
    "string_in_with_macro": lambda n: "with! c:\n    s = '''\n" + ("    line of text\n") * (4 * n) + "    '''\nz = 1\n",
    "unclosed_quote_then_tokens": lambda n: "x = '" + "a+" * n + "a\n",
    "unclosed_quote_escaped_later": lambda n: '"' + "a," * n + '\\"\n',
    "unclosed_quote_in_macro": lambda n: "f!(it's " + "a " * n + ")\n'\n",
    "combining_marks": lambda n: "x" + "\u0301" * (4 * n) + " = 1\n",
    "long_flat_line": lambda n: "x = " + "a + " * n + "a\n",
    "many_short_lines": lambda n: "x = 1\n" * n,
    "escaped_backticks_in_macro": lambda n: "f!(`" + "\\`" * n + ")\n",
    "escaped_backticks_plain": lambda n: "x = `" + "a\\`" * n + "\n",
    "prefixed_open_backticks": lambda n: "with! c: " + "rg\\` @p\\` " * n + "`\\\n",
    "long_comment_lines": lambda n: ("# " + "c" * 60 + "\n") * n,
    "deep_continuation": lambda n: "x = 1 + \\\n" * n + "1\n",
}
TIME_FILE_FAMILIES = {
    "debug_fields_in_file": lambda n: "x = f'{a=}'\n" * n,
    "errors_text_in_file": lambda n: "x = 1\n" * n + "y = = 2\n",
}
# CPU time of a whole parse (work after the last token: passes over the finished tree)
TIME_PARSE_FAMILIES = {
    # many nodes on one long non-ASCII line: every node's columns are converted to byte offsets
    "nonascii_names_on_one_line": lambda n: "x = [" + ", ".join("\u00e9%d" % i for i in range(n // 8)) + "]\n",
    "nonascii_names_many_lines": lambda n: "".join("\u00e9%d = '\u00fc'\n" % i for i in range(n // 8)),
    # passes that must not copy or rescan what they have seen so far (all linear in token reads; only the CPU time shows them)
    "lambdas_in_fstring_field": lambda n: "x = f'{(" + "lambda: 1, " * (n // 4) + ")}'\n",
    "fstrings_with_lambda_fields": lambda n: "x = f'{(lambda: 1)}'\n" * (n // 4),
    "glued_word_after_inject": lambda n: "$(echo @(b)" + "-a" * n + ")\n",
    "glued_long_tokens": lambda n: "$(echo " + ("a" * 50 + "-") * (n // 2) + "b)\n",
    "bytes_concat": lambda n: "x = (" + ("b'" + "a" * 50 + "' ") * (n // 2) + ")\n",
    "fstring_concat": lambda n: "x = (" + ("f'" + "a" * 50 + "' ") * (n // 2) + ")\n",
    "numbers_long_line": lambda n: "x = [" + ("1" * 20 + ", ") * n + "]\n",
    "debug_fields_long_line": lambda n: "x = f'" + ("{" + "a" * 50 + "=}") * (n // 2) + "'\n",
    "nonascii_identifiers_nfkc": lambda n: "x = [" + ", ".join("\ufb01%d" % i for i in range(n // 8)) + "]\n",
}
# finding F18e: the search-path pattern scans to the end of the line from every backtick
TIME_KNOWN = {"escaped_backticks_in_macro": "F18e"}


def _cpu(fn):
    best = None
    for _ in range(3):
        t0 = time.process_time()
        try:
            fn()
        except BaseException:  # noqa: BLE001  (TokenError / SyntaxError outcomes are fine: only the time is observed)
            pass
        dt = time.process_time() - t0
        best = dt if best is None else min(best, dt)
    return best


class _CountingFile:
    def __init__(self, f, counter):
        self._f, self._c = f, counter

    def __enter__(self):
        self._f.__enter__()
        return self

    def __exit__(self, *a):
        return self._f.__exit__(*a)

    def __iter__(self):
        for line in self._f:
            self._c[0] += 1
            yield line

    def readline(self, *a):
        self._c[0] += 1
        return self._f.readline(*a)

    def read(self, *a):
        data = self._f.read(*a)
        self._c[0] += data.count(b"\n" if isinstance(data, bytes) else "\n") + 1
        return data

    def readlines(self, *a):
        data = self._f.readlines(*a)
        self._c[0] += len(data)
        return data

    def __getattr__(self, k):
        return getattr(self._f, k)


def run_file_family(acc, name, sizes):
    """parse_file on files of n lines: the number of lines read from the file must stay within a small multiple of n"""
    import builtins
    import pathlib
    import tempfile

    import peg_parser.subheader as sh
    import peg_parser.tokenizer as tk

    cls = base.load_repo()
    counter = [0]

    def spy(file, *a, **k):
        return _CountingFile(builtins.open(file, *a, **k), counter)

    series = []
    sh.open = tk.open = spy
    # the entry point may open its source through the standard library's tokenize.open (PEP 263 detection)
    std = getattr(sh, "tokenize", None)
    real_std_open = getattr(std, "open", None)
    if real_std_open is not None:
        std.open = lambda file, *a, **k: _CountingFile(real_std_open(file, *a, **k), counter)
    # ... or read it in one piece through pathlib, which goes through io.open
    import io

    real_io_open = io.open
    io.open = lambda file, *a, **k: _CountingFile(real_io_open(file, *a, **k), counter) if str(file).endswith("t.xsh") else real_io_open(file, *a, **k)
    try:
        for n in [max(50, x // 10) for x in sizes]:
            src = TIME_FILE_FAMILIES[name](n)
            with tempfile.TemporaryDirectory(prefix="xv_c18_") as d:
                p = pathlib.Path(d) / "t.xsh"
                p.write_text(src, encoding="utf-8")
                counter[0] = 0
                try:
                    cls.parse_file(p)
                except SyntaxError:
                    pass
            acc.evals += 1
            acc.count("file_runs")
            acc.nontrivial(base.h64("file", name, n))
            series.append((n, counter[0]))
    finally:
        io.open = real_io_open
        del sh.open, tk.open
        if real_std_open is not None:
            std.open = real_std_open
    acc.seen("file_line_reads", f"{name}: " + ", ".join(f"{n}->{c}" for n, c in series))
    if not any(c for _, c in series):
        acc.inconc("the open() spy saw no file reads", {"time_family": name})
    for n, c in series:
        if c > 4 * n + 20:
            acc.violation("file-lines-read-superlinear", {"time_family": name, "sizes": sizes}, {"series_n_lines_read": series})
            break


def run_time_family(acc, name, sizes):
    from peg_parser.tokenize import generate_tokens

    cls = base.load_repo()
    series = []
    for n in sizes:
        if name in TIME_FAMILIES:
            src = TIME_FAMILIES[name](n)
            t = _cpu(lambda: sum(1 for _ in generate_tokens(src)))
        elif name in TIME_PARSE_FAMILIES:
            src = TIME_PARSE_FAMILIES[name](n)
            t = _cpu(lambda: cls.parse_string(src, mode="exec"))
        else:
            # file families have a logical observable: how many lines the parser reads from the file (a spy on the two modules' open())
            return run_file_family(acc, name, sizes)
        acc.evals += 1
        acc.count("timed_runs")
        acc.nontrivial(base.h64("time", name, n))
        series.append((n, round(t, 4)))
        if t > 20:
            break  # enough to judge; larger sizes would only burn time
    bad = 0
    worst = 0.0
    viol = False
    for (n1, t1), (n2, t2) in zip(series, series[1:]):
        if t2 < TIME_FLOOR or t1 <= 0:
            bad = 0
            continue
        r = t2 / t1
        worst = max(worst, r)
        bad = bad + 1 if r > TIME_RATIO else 0
        if bad >= 2:
            viol = True
    acc.seen("time_series", f"{name}: " + ", ".join(f"{n}->{t}s" for n, t in series))
    acc.maxi("max_cpu_ms", int(1000 * max(t for _, t in series)))
    if viol:
        case = {"time_family": name, "sizes": [n for n, _ in series]}
        if name in TIME_KNOWN:
            acc.finding(TIME_KNOWN[name], f"{name} {series[-3:]}")
        else:
            acc.violation("superlinear-cpu-time", case, {"series_n_seconds": series, "worst_ratio": round(worst, 2)})


def run_shard(shard):
    acc = Acc()
    if "replay" in shard and "time_family" in shard["replay"]:
        run_time_family(acc, shard["replay"]["time_family"], shard["replay"]["sizes"])
        return acc.dump()
    if "time_items" in shard:
        for name in shard["time_items"]:
            run_time_family(acc, name, shard["time_sizes"])
        return acc.dump()
    if "replay" in shard:
        c = shard["replay"]
        run_family(acc, c["family"], c["variant"], c["sizes"])
        # in replay mode candidates are reported as they are
        return acc.dump()
    for name, variant in shard["items"]:
        kind = FAMILIES[name][1]
        sizes = shard["nest_sizes"] if kind == "nest" else shard["flat_sizes"]
        run_family(acc, name, variant, sizes)
    return acc.dump()


def plan(tier, seed):
    q = tier == "quick"
    rnd = random.Random(seed)
    nest_sizes = [3, 6, 12, 24, 48] if q else [4, 8, 16, 32, 64, 128]
    flat_sizes = [8, 16, 32, 64, 128] if q else [16, 32, 64, 128, 256, 512]
    items = []
    for name in FAMILIES:
        items.append((name, "valid"))
        variants = list(INVALID)
        if q:
            rnd2 = random.Random(f"{seed}:{name}")
            variants = rnd2.sample(variants, 6)
            if FAMILIES[name][1] == "nest" and name not in BLOCK_FAMILIES and "wrong_closer" not in variants:
                variants.append("wrong_closer")
            if "double_eq" not in variants and name in ("paren", "list", "call"):
                variants.append("double_eq")
            if name in BLOCK_FAMILIES:
                variants = list(dict.fromkeys(variants + ["extra_token", "bad_target"]))  # errors without a dedicated diagnostic
        for v in variants:
            items.append((name, v))
    rnd.shuffle(items)
    per = 6
    shards = [{"items": items[i : i + per], "nest_sizes": nest_sizes, "flat_sizes": flat_sizes} for i in range(0, len(items), per)]
    time_sizes = [1000, 2000, 4000, 8000, 16000] if q else [2000, 4000, 8000, 16000, 32000, 64000]
    for name in list(TIME_FAMILIES) + list(TIME_PARSE_FAMILIES) + list(TIME_FILE_FAMILIES):
        shards.append({"time_items": [name], "time_sizes": time_sizes})
    return {"shards": shards, "shard_timeout": 2400}


def finish(acc, tier, seed):
    """F18a attribution: a superlinear invalid nesting family is the known finding only if the valid variant of the same family was measured
    linear in this run (so the blow-up comes from the diagnostic pass, not from the first pass)."""
    reasons = []
    ratios = dict((k, v) for k, v in acc.sets.get("worst_ratio_by_family", ()))
    keep = []
    for v in acc.violations:
        if v["kind"] != "F18a-candidate":
            keep.append(v)
            continue
        fam = v["case"]["family"]
        valid_ratio = ratios.get(f"{fam}/valid")
        if valid_ratio is not None and valid_ratio <= RATIO:
            acc.finding(v.get("finding", "F18a"), f"{fam}/{v['case']['variant']}")
        else:
            v["kind"] = "superlinear-work"
            keep.append(v)
    acc.violations = keep
    if acc.counters.get("parses", 0) < (500 if tier == "quick" else 2500):
        reasons.append(f"only {acc.counters.get('parses', 0)} measured parses")
    if acc.sets.get("valid_families_rejected"):
        reasons.append(f"valid families rejected by the parser: {sorted(acc.sets['valid_families_rejected'])}")
    return reasons
