"""C14 - statements parse independently: parse(A+B) = parse(A) then line-shifted parse(B)."""
from __future__ import annotations

import ast
import io
import random

from .. import base, corpus, gen_py, gen_xonsh
from ..acc import Acc

LEVEL = "exploration"
RULE = ("sequences of 2-6 complete top-level statements drawn with repetition from a pool of Python and xonsh statement forms (every sugar form, "
        "env assignments, call/with/subprocess macros, path literals, help, f-strings, multi-line strings/brackets, decorators, match, try, async) "
        "plus corpus statements; each part must parse alone; the whole must parse and its body must equal the parts' bodies with shifted line numbers "
        "(full dumps with positions); every ordered pair of pool items is covered in the thorough tier; distinct non-trivial = distinct sequences whose "
        "parts all parse alone")
ASSUMPTIONS = ["trailing blank lines after a with-macro block belong to the block (pinned by the repository's tests) and are kept out of the relation: a part "
               "that follows a with-macro block never starts with a blank line (a comment line there is fine: it is outside the block)"]


def worker_init():
    base.load_repo()


def nlines(s):
    return len(io.StringIO(s, newline=None).readlines())


_cache = {}


def alone(s):
    """(dumps of body statements, tree) if the part parses alone, else None"""
    if s in _cache:
        return _cache[s]
    out = base.parse(s, "exec")
    res = out.value if out.accepted else None
    if len(_cache) < 5000:
        _cache[s] = res
    return res


def check_case(acc, parts, origin):
    trees = [alone(p) for p in parts]
    if any(t is None for t in trees):
        acc.count("skipped_part_does_not_parse_alone")
        return
    whole = "".join(parts)
    case = {"parts": parts, "origin": origin}
    out = base.parse(whole, "exec")
    acc.count("class_" + origin)
    if out.kind == "timeout":
        acc.inconc("case-watchdog", case)
        return
    acc.evals += 1
    acc.nontrivial(base.h64(parts))
    if acc.evals % 997 == 1:
        acc.sample({"parts": [p[:60] for p in parts]})
    if not out.accepted:
        acc.violation("concatenation-rejected", case, {"outcome": out.brief()})
        return
    expected = []
    off = 0
    for p, t in zip(parts, trees):
        # fresh parse of the part (never mutate a cached tree), shifted by the lines before it
        t2 = base.parse(p, "exec").value
        if off:
            ast.increment_lineno(t2, off)
        expected.extend(base.stable_dump(s) for s in t2.body)
        off += nlines(p)
    observed = [base.stable_dump(s) for s in out.value.body]
    if expected != observed:
        k = next((i for i, (a, b) in enumerate(zip(expected, observed)) if a != b), min(len(expected), len(observed)))
        acc.violation("whole-differs-from-parts", case, {"n_expected": len(expected), "n_observed": len(observed), "first_difference_at_statement": k,
                                                           "expected": expected[k][:300] if k < len(expected) else None,
                                                           "observed": observed[k][:300] if k < len(observed) else None})


def pool_items():
    items = [s for s in gen_xonsh.XONSH_STMTS + gen_xonsh.PY_STMTS if s.endswith("\n")]
    items += ["with! a:\n    b\n\n", "with! a:\n    b\n    # c\n", "if x:\n    with! a:\n        b c\n", "f!(a,\n   b)\n", "x = f!(a)(b)\n" if False else "x = [f!(a), 2]\n",
              "$(ls\n -l)\n" if False else "$(ls -l); $[pwd]\n", "x = p'/a' 'b'\n", "x = pf'{a}/b'; y = p'c'\n", "help?; f??\n" if False else "int?\n", "x = '''\n$(\n'''\n", "x = '''\nwith! a:\n'''\n",
              "# with! a:\n", "x = (\n  $A,\n  $(b c),\n)\n", "x = f'{$(ls)}' f'{a!r:{b}}'\n", "def f():\n    with! a:\n        raw text here\n    return 1\n", "y = f!(if else)\n",
              "![a b c! d e f]\n", "$[echo!]\n", "x = $(timeit!)\n", "![echo -n!]\n", "r = !(ls! )\n", "f!()\n", "g!( )\n", "with! a: \n" if False else "h!(a,)\n", "x = 1 if ![a] else $[b]\n", "@dec\ndef g():\n    $[ls]\n", "class A:\n    with! b:\n        c\n    x = 1\n", "for $i in $(seq 3).split(): print($i)\n",
              # one-line with-macros whose statement ends inside a multi-line string or bracket: the capture must stop at the statement's NEWLINE
              "with! ctx: a = \"\"\"q\nw\"\"\"\n", "with! x: f(\'\'\'\n\'\'\')\n", "with! x: y = (1,\n  2)\n", "with! x: s = \'a\\\nb\'\n", "with! x: pass\n"]
    # characters that str.splitlines() takes for line ends but Python source does not (form feed, VT, FS, NEL, U+2028): a statement
    # holding one must not shift anything a later statement reads by line number ...
    items += ["x = 1\n\x0c\ny = 2\n", "s = 'a\x0cb'\n", "# c \u2028 d\n", "s = 'q\x85r\x1cs'  # \x1d\n", "$(echo a\x0bb)\n", "with! a:\n    b \u2028 c\n", "\x0c\n", "k = \"\"\"\n\x0c\n\u2029\n\"\"\"\n", "g!(a \x1e b)\n"]
    # ... and statements that read the source by line number (macro text, `=` debug text, byte columns of non-ASCII lines, raw blocks)
    items += ["r = f!(a + b, [c, d])\n", "t = f'{q = }'\n", "é = $HOME + 'ü'\n", "with! a:\n    b\n\n    c\n", "x = f\"\"\"{a=\n}\"\"\"\n", "v = $(echo! é  è)\n", "w = f'{é!r = :>4}' 'ß'\n"]
    items += [s for s in gen_xonsh.MATCH_MACROS[::3] if not s.endswith("pass\n")] + ["match!(a, b c d e)\n", "match!(a, @(x + y + z))\n", "match !(x, y)\n", "assert w, 'm'\n", "f!(a,)\n", "g!(x)\n"]
    return [s for s in items if s]


STR_KINDS = ["'a'", 'r"b\\d"', "u'c'", "f'{d}'", "rf'{e}\\w'", "p'/g'", "pr'/h'", "pf'/{i}'", "fp'/{j}/k'", "'''l\nm'''", "f'''{n}\n'''", "F'o'"]
PROBES = ["s = 'plain'\n", "t = f'{q}'\n", "u = p'/z'\n", "v = 'a' 'b'\n", "w = f(x, 'y')\n", "$(echo 'q' \"r\")\n"]


def concat_items():
    """implicit concatenations of every ordered pair (and some triples) of string kinds: state set by one part (path prefix, f-string
    mode) must be consumed by the same expression and never leak into the next statement"""
    out = []
    for a in STR_KINDS:
        for b in STR_KINDS:
            out.append(f"x = {a} {b}\n")
    for a, b, c in [(0, 7, 0), (5, 7, 3), (7, 5, 0), (5, 0, 7), (3, 5, 3), (8, 8, 0), (5, 6, 7), (0, 3, 7)]:
        out.append(f"y = ({STR_KINDS[a]}\n     {STR_KINDS[b]} {STR_KINDS[c]})\n")
    return out


def starts_blank_or_comment(s):
    """only blank lines are pinned to the block; a comment line at the statement's own indentation after the block is outside it"""
    first = s.split("\n", 1)[0].strip()
    return first == ""


def ok_sequence(parts):
    for a, b in zip(parts, parts[1:]):
        if "with!" in a.replace(" ", "") and starts_blank_or_comment(b):
            return False
    return True


def run_shard(shard):
    acc = Acc()
    if "replay" in shard:
        check_case(acc, shard["replay"]["parts"], "replay")
        return acc.dump()
    rnd = random.Random(f"{shard['seed']}:{shard['kind']}:{shard.get('idx', 0)}")
    pool = pool_items()
    kind = shard["kind"]
    if kind == "pairs":
        for i in range(shard["lo"], min(shard["hi"], len(pool))):
            for b in pool:
                parts = [pool[i], b]
                if ok_sequence(parts):
                    check_case(acc, parts, "pair")
    elif kind == "concat":
        items = concat_items()
        for it in items[shard["lo"] : shard["hi"]]:
            for pr in PROBES:
                check_case(acc, [it, pr], "concat-then-probe")
                check_case(acc, [pr, it], "probe-then-concat")
            check_case(acc, [it, rnd.choice(items), rnd.choice(PROBES)], "concat-concat-probe")
    elif kind == "seq":
        for _ in range(shard["n"]):
            parts = [rnd.choice(pool) for _ in range(rnd.randint(2, 6))]
            if ok_sequence(parts):
                check_case(acc, parts, "sequence")
    elif kind == "corpus":
        stmts = []
        for path in shard["files"]:
            text = corpus.read(path)
            if text:
                stmts.extend(s for s in corpus.statements(text) if len(s) < 3000)
        if stmts:
            for _ in range(shard["n"]):
                parts = [rnd.choice(stmts) if rnd.random() < 0.6 else rnd.choice(pool) for _ in range(rnd.randint(2, 5))]
                if ok_sequence(parts):
                    check_case(acc, parts, "corpus-mix")
    return acc.dump()


def plan(tier, seed):
    rnd = random.Random(seed)
    q = tier == "quick"
    n = len(pool_items())
    shards = []
    if q:
        lo = (seed * 16) % n
        for i in range(16):
            k = (lo + i * (n // 16 or 1)) % n
            shards.append({"kind": "pairs", "seed": seed, "lo": k, "hi": k + 2})
    else:
        for lo in range(0, n, 3):
            shards.append({"kind": "pairs", "seed": seed, "lo": lo, "hi": lo + 3})
    nc = len(concat_items())
    for lo in range(0, nc, 10):
        shards.append({"kind": "concat", "seed": seed, "idx": lo, "lo": lo, "hi": lo + 10})
    for i in range(16 if q else 128):
        shards.append({"kind": "seq", "seed": seed, "idx": i, "n": 350 if q else 1500})
    files = corpus.files()
    rnd.shuffle(files)
    for i in range(16 if q else 128):
        shards.append({"kind": "corpus", "seed": seed, "idx": i, "files": files[i * 5 : i * 5 + 5], "n": 150 if q else 600})
    return {"shards": shards}


def finish(acc, tier, seed):
    need = 5000 if tier == "quick" else 150000
    return [f"only {acc.evals} sequences compared (< {need})"] if acc.evals < need else []
