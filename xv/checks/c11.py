"""C11 - syntax errors are well-formed and point into the offending source."""
from __future__ import annotations

import io
import random
import re

from .. import base, corpus, gen_py, gen_xonsh
from ..acc import Acc

LEVEL = "exploration"
RULE = ("every SyntaxError/IndentationError raised by parse_string (exec and eval) on rejected inputs (mutants/prefixes of Python and xonsh "
        "statements, error snippets of the repository's own error tests re-laid-out, unterminated constructs, soup) is checked by the "
        "well-formedness predicate; distinct non-trivial = distinct (text, mode) that raised a SyntaxError and has >= 2 characters")
ASSUMPTIONS = ["source lines are split with universal newlines (\\n, \\r\\n, \\r) as the parser entry points and CPython read a source; the line terminator of `text` is not compared"]


def worker_init():
    base.load_repo()


def predicate(src, e):
    """list of defects of the exception's attributes w.r.t. the input"""
    lines = io.StringIO(src, newline=None).readlines()
    n = len(lines)
    bad = []
    if not isinstance(e.msg, str) or not e.msg.strip():
        bad.append("empty-msg")
    if not e.filename:
        bad.append("no-filename")
    ln, off = e.lineno, e.offset
    if not isinstance(ln, int) or isinstance(ln, bool) or not (1 <= ln <= n + 1):
        bad.append(f"lineno-out-of-range:{ln!r}/{n}")
        return bad
    line = lines[ln - 1] if ln <= n else ""
    body = line.rstrip("\r\n")
    if not isinstance(off, int) or isinstance(off, bool) or not (1 <= off <= len(body) + 1 + (len(line) - len(body))):
        bad.append(f"offset-out-of-range:{off!r}/{len(body)}")
    el, eo = getattr(e, "end_lineno", None), getattr(e, "end_offset", None)
    if not isinstance(el, int) or not isinstance(eo, int):
        bad.append("no-end-position")
    elif isinstance(off, int) and (el, eo) < (ln, off):
        bad.append(f"end-before-start:{(ln, off)}>{(el, eo)}")
    if not isinstance(e.text, str):
        bad.append("no-text")
    elif not e.text.startswith(body):
        bad.append("text-is-not-the-source-line")
    return bad


def _in_literal_eval(e):
    import traceback

    return any(f.name == "literal_eval" and f.filename.endswith("ast.py") for f in traceback.extract_tb(e.__traceback__))


def classify(src, e, bad):
    """known findings, each pinned by message/trigger/raise site and by the exact set of defects it explains"""
    kinds = {b.split(":")[0] for b in bad}
    msg = e.msg if isinstance(e.msg, str) else ""
    if "is only supported in Python" in msg and kinds <= {"no-filename", "lineno-out-of-range"}:
        return "F11b"
    if msg.startswith("Unmatched closing paren") and "!(" in src and kinds <= {"no-filename", "lineno-out-of-range"}:
        return "F11d"
    if _in_literal_eval(e):
        return "F11e"
    if kinds == {"text-is-not-the-source-line"} and e.text == "" and isinstance(e.lineno, int) and isinstance(e.offset, int):
        lines = io.StringIO(src, newline=None).readlines()
        if e.lineno <= len(lines):
            line = lines[e.lineno - 1]
            if line.strip() == "" or e.offset >= len(line.rstrip("\r\n")) + 1:
                return "F11c"
    return None


def check_case(acc, src, mode, origin):
    out = base.parse(src, mode)
    acc.count("calls")
    if out.kind == "timeout":
        acc.inconc("case-watchdog", {"src": src})
        return
    if out.kind != "syntax":
        acc.count("not_a_syntax_error_" + out.kind)
        return
    e = out.exc
    acc.evals += 1
    if len(src) >= 2:
        acc.nontrivial(base.h64(mode, src))
    acc.count("class_" + type(e).__name__)
    acc.seen("messages", re.sub(r"'[^']*'|\d+", "_", str(e.msg))[:60])
    if acc.evals % 1499 == 1:
        acc.sample({"src": src[:100], "mode": mode, "error": f"{type(e).__name__}: {e.msg} @ {e.lineno}:{e.offset}-{e.end_lineno}:{e.end_offset} text={e.text!r:.60}"})
    bad = predicate(src, e)
    if bad:
        fid = classify(src, e, bad)
        if fid:
            acc.finding(fid, src[:80])
        else:
            acc.violation(bad[0].split(":")[0], {"src": src, "mode": mode, "origin": origin},
                          {"defects": bad, "error": f"{type(e).__name__}({e.msg!r}) file={e.filename!r} {e.lineno}:{e.offset}-{getattr(e, 'end_lineno', None)}:{getattr(e, 'end_offset', None)} text={e.text!r:.80}"})


# --- positions are character columns: a relation that needs no reference ---------------------------------------------------------------------
# Replacing every occurrence of an ASCII letter-name by a non-ASCII letter of the same length (both NFKC-stable identifiers) changes no
# character position of the text. If both texts are refused with the same message (up to the renamed letter), the reported line, offset, end
# line and end offset must be identical: SyntaxError offsets count characters, as CPython's do, never UTF-8 bytes.
_RENAMES = {"a": "é", "x": "ж", "b": "ß", "f": "ƒ", "T": "Ω", "A": "Ä", "X": "Ж", "e": "ε", "y": "ý", "c": "ç"}


def renamed(src):
    """the text with each single-letter name of _RENAMES replaced (also inside strings and comments - lengths do not change), or None"""
    out = re.sub(r"(?<![\w'\"\\])([axbfTAXeyc])(?![\w'\"])", lambda m: _RENAMES[m.group(1)], src)
    return out if out != src else None


def rename_relation(acc, src, mode, py_version=None):
    alt = renamed(src)
    if alt is None:
        return
    kw = {"py_version": py_version} if py_version else {}
    a, b = base.parse(src, mode, **kw), base.parse(alt, mode, **kw)
    if a.kind != "syntax" or b.kind != "syntax":
        acc.count("rename_pairs_not_both_refused")
        return
    back = {v: k for k, v in _RENAMES.items()}
    unrename = lambda s: "".join(back.get(ch, ch) for ch in s) if isinstance(s, str) else s  # noqa: E731
    if type(a.exc) is not type(b.exc) or unrename(b.exc.msg) != a.exc.msg:
        acc.count("rename_pairs_different_error")  # e.g. a bytes literal that now holds a non-ASCII character
        return
    acc.count("rename_pairs_compared")
    acc.evals += 1
    acc.nontrivial(base.h64("rename", mode, alt, py_version))
    pa = (a.exc.lineno, a.exc.offset, getattr(a.exc, "end_lineno", None), getattr(a.exc, "end_offset", None))
    pb = (b.exc.lineno, b.exc.offset, getattr(b.exc, "end_lineno", None), getattr(b.exc, "end_offset", None))
    if pa != pb or len(b.exc.text or "") != len(a.exc.text or ""):  # (that the text is the source line is the predicate's business)
        acc.violation("error-position-changes-with-non-ascii-letters", {"src": alt, "mode": mode, "origin": "rename", "ascii": src, "py_version": list(py_version) if py_version else None},
                      {"ascii_text": src[:200], "ascii_position": list(pa), "non_ascii_position": list(pb), "message": str(a.exc.msg)[:100], "ascii_line": a.exc.text, "non_ascii_line": b.exc.text})


ERROR_SNIPPETS = None


def error_snippets():
    """inputs of the repository's own syntax-error tests (harvested from the test file's string constants)"""
    global ERROR_SNIPPETS
    if ERROR_SNIPPETS is None:
        import ast
        import os

        out = []
        for name in ("test_syntax_error_handling.py", "test_invalid.py"):
            p = os.path.join(base.REPO, "tests", name)
            try:
                tree = ast.parse(open(p, encoding="utf-8").read())
            except (OSError, SyntaxError):
                continue
            for node in ast.walk(tree):
                if isinstance(node, ast.Constant) and isinstance(node.value, str) and 1 < len(node.value) < 300:
                    out.append(node.value)
        ERROR_SNIPPETS = sorted(set(out))
    return ERROR_SNIPPETS


def relayout(rnd, s):
    r = rnd.random()
    if rnd.random() < 0.25:
        # the error (and any multi-line span) at an arbitrary line offset
        s = "".join(rnd.choice(["pass\n", "\n", "# c\n", "x = 1\n"]) for _ in range(rnd.randint(1, 24))) + s
    if r < 0.15:
        return "\n\n" + s
    if r < 0.3:
        return "# c\n" + s + "\n# d\n"
    if r < 0.45:
        return "x = 1\n" + s + "\ny = 2\n"
    if r < 0.55:
        return s.rstrip("\n")
    if r < 0.65:
        return s + "\n   "
    if r < 0.75:
        return "if a:\n" + "".join("    " + l for l in s.splitlines(keepends=True)) + "\n"
    if r < 0.85:
        return s.replace("\n", "\r\n")
    if r < 0.92:
        return "x = (\n 1,\n 2)\n" + s
    return "'''\nm\n'''\n" + s + "\n\n\n"


def run_shard(shard):
    acc = Acc()
    if "replay" in shard:
        c = shard["replay"]
        if c.get("origin") == "rename" and c.get("ascii"):
            rename_relation(acc, c["ascii"], c["mode"], tuple(c["py_version"]) if c.get("py_version") else None)
        else:
            check_case(acc, c["src"], c["mode"], "replay")
        return acc.dump()
    rnd = random.Random(f"{shard['seed']}:{shard['kind']}:{shard.get('idx', 0)}")
    kind = shard["kind"]

    def both(s, origin):
        check_case(acc, s, "exec", origin)
        if rnd.random() < 0.12 or origin in ("snippet", "error-after-macro"):
            rename_relation(acc, s, "exec")
        if rnd.random() < 0.4:
            check_case(acc, s, "eval", origin)

    if kind == "fixed":
        for s in error_snippets():
            both(s, "snippet")
            for _ in range(shard.get("relayouts", 4)):
                both(relayout(rnd, s), "snippet-layout")
        # tokenizer IndentationError (dedent to no enclosing level) under every kind of indentation unit: offsets are character
        # columns, not tab-expanded widths
        units = [" ", "  ", "    ", "\t", "\t\t", " \t", "\t ", "\f ", "        ", "\t    "]
        for u1 in units:
            for u2 in units:
                if u1 != u2:
                    for s in (f"if x:\n{u1}{u2}y\n{u2 if len(u2) < len(u1 + u2) else u1}z\n", f"if x:\n{u1}{u1}y\n{u2}z\n", f"def f():\n{u1}if a:\n{u1}{u2}{u2}b\n{u1}{u2}c\n"):
                        both(s, "indent-family")
                        both("x = 1\n" + s + "w = 2\n", "indent-family")
                        both(gen_py.backslash_line_mutant(rnd, s), "indent-family-backslash-line")
                    # the indentation is measured on a backslash-only line, the error is found on the (unindented) line after it
                    both(f"if x:\n{u1}{u1}y\n{u2}\\\nz\n", "indent-family-backslash-line")
                    both(f"if x:\n{u1}if y:\n{u1}{u1}a\n{u2}\\\nelse:\n{u1}b\n", "indent-family-backslash-line")
        # errors whose span covers several physical lines, starting at every line number from 1 to 20 (the text of the error is put
        # together from the lines of the span, looked up by number)
        for s in MULTI_LINE_SPANS:
            for lead in range(20):
                both("y = 0\n" * lead + s, "multi-line-span-at-line")
        for s in gen_xonsh.UNTERMINATED:
            for v in (s, s + "\n", "x = 1\n" + s, s + "\nx = 1\n", "\n\n" + s + "\n   "):
                both(v, "unterminated")
        # an error after a macro: the diagnostic pass re-reads the macro from the token cache and must report the error where it is
        for mac, plain in (("f!(x, y)", "f_(x, y)"), ("g!(a b)", "g_('a b')"), ("with! c:\n    raw text\n", "with c:\n    'raw text'\n"), ("r = $(echo! raw)", "r = s_('echo', 'raw')")):
            for bad in ("z = 1 1\n", "print 'a'\n", "x = (\n", "def (:\n", "y = = 2\n"):
                sep = "" if mac.endswith("\n") else "\n"
                a, b = base.parse(mac + sep + bad, "exec"), base.parse(plain + sep + bad, "exec")
                acc.count("error_after_macro_pairs")
                if a.kind == "syntax" and b.kind == "syntax":
                    pa, pb = (a.exc.msg, a.exc.lineno, a.exc.offset), (b.exc.msg, b.exc.lineno, b.exc.offset)
                    if pa != pb:
                        acc.violation("error-after-macro-misreported", {"src": mac + sep + bad, "mode": "exec"}, {"with_macro": list(map(str, pa)), "with_plain_call": list(map(str, pb))})
                both(mac + sep + bad, "error-after-macro")
        from . import c15

        for s0 in VERSION_GATED + c15.GATED:
            for v in ((3, 8), (3, 10), (3, 11)):
                for s in (s0, "a = 'b'; " + s0 if not s0.startswith(("@", " ")) else s0, s0.replace("pass", "f(a, 'x')  # e")):
                    rename_relation(acc, s, "exec", v)
        for s in VERSION_GATED + c15.GATED + [renamed(g) for g in VERSION_GATED + c15.GATED if renamed(g)]:
            for v in ((3, 8), (3, 10), (3, 11)):
                out = base.parse(s, "exec", py_version=v)
                if out.kind == "syntax":
                    acc.evals += 1
                    acc.count("version_gated_errors")
                    bad = predicate(s, out.exc)
                    if bad:
                        fid = classify(s, out.exc, bad)
                        if fid:
                            acc.finding(fid, s[:60])
                        else:
                            acc.violation(bad[0], {"src": s, "mode": "exec", "py_version": list(v)}, {"defects": bad})
    elif kind == "mutate":
        pool = list(gen_xonsh.XONSH_STMTS + gen_xonsh.PY_STMTS + gen_py.SEEDS + error_snippets())
        for _ in range(shard["n"]):
            s = rnd.choice(pool)
            if rnd.random() < 0.3:
                s = relayout(rnd, s)
            r = rnd.random()
            if r < 0.6:
                both(gen_xonsh.char_edits(rnd, s), "mutate")
            elif r < 0.9:
                for p in gen_xonsh.prefixes(rnd, s, 2):
                    both(p, "prefix")
            else:
                both(gen_xonsh.soup(rnd), "soup")
    elif kind == "corpus":
        stmts = []
        for path in shard["files"]:
            text = corpus.read(path)
            if text:
                stmts.extend(s for s in corpus.statements(text) if len(s) < 2500)
        rnd.shuffle(stmts)
        for s in stmts[: shard["n"]]:
            if rnd.random() < 0.5:
                s = relayout(rnd, s)
            both(gen_xonsh.char_edits(rnd, s, rnd.randint(1, 2)), "corpus-mutate")
            for p in gen_xonsh.prefixes(rnd, s, 1):
                both(p, "corpus-prefix")
    return acc.dump()


MULTI_LINE_SPANS = ["del x, foo(\n)\n", "y = 1; \"\"\"a\nb\"\"\" = 2\n", "z = (foo(\n) := 1)\n", "x = f\"\"\"\\x\n\"\"\"\n", "aaaa, bbbb, f(\n) = 1\n", "for q, (c.d)(\n) in y: pass\n", "with a as b, cccc(\n): pass\n",
                    "long_name = [1, 2]; (x.y)(\n 1) += 2\n", "import a; x = 1; lambda: (yield\n) = 3\n","x = (a\n b)\n", "f(a\n  b)\n", "f(\n  a)(\n  b) = 1\n", "x = [1,\n 2 3]\n", "x = \'\'\'a\nb\'\'\' \'c\' d\n", "foo(a,\n  b) = 3\n", "print(a\n b\n c)\n", "x = {1:\n 2 3:\n 4}\n",
                    "(a,\n b,\n c) += 1\n", "with (a as b,\n c as d) e: pass\n", "x = f(a for a in b,\n c)\n", "def f(a,\n b=1,\n c): pass\n", "x = $(ls\n -l) = 2\n", "[a\n for a in b\n if c] = 1\n"]

VERSION_GATED = [
    "try:\n    pass\nexcept* A:\n    pass\n", "type X = int\n", "def f[T](x): pass\n", "class A[T]: pass\n", "x = 1\n\n\ntype Y[T] = list[T]\n",
    "if a:\n    try:\n        pass\n    except* (A, B) as e:\n        pass\n", "match x:\n    case 1: pass\n", "with (a as b, c as d): pass\n", "x = (y := 1)\n", "def f(a, /): pass\n",
]


def plan(tier, seed):
    rnd = random.Random(seed)
    q = tier == "quick"
    shards = [{"kind": "fixed", "seed": seed, "relayouts": 4 if q else 30}]
    for i in range(16 if q else 128):
        shards.append({"kind": "mutate", "seed": seed, "idx": i, "n": 1600 if q else 5000})
    files = corpus.files()
    rnd.shuffle(files)
    for i in range(16 if q else 128):
        shards.append({"kind": "corpus", "seed": seed, "idx": i, "files": files[i * 6 : i * 6 + 6], "n": 150 if q else 500})
    return {"shards": shards}


def finish(acc, tier, seed):
    need = 15000 if tier == "quick" else 400000
    return [f"predicate ran on only {acc.evals} raised errors (< {need})"] if acc.evals < need else []
