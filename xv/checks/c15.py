"""C15 - options only do what they say: verbose is inert, py_version gating is monotone."""
from __future__ import annotations

import ast
import random
import re

from .. import base, corpus, gen_py, gen_xonsh
from ..acc import Acc

LEVEL = "exploration"
RULE = ("each input is parsed under the grid verbose in {False,True} x py_version in {None,(3,8)..(3,13)} in its mode (exec; eval for expressions); "
        "relations: verbose never changes the outcome signature; py_version >= need (need computed from the gated nodes of the default tree: TryStar->3.11, "
        "TypeAlias/type_params->3.12) gives the default outcome, py_version < need gives a SyntaxError naming the required version; a rejection never "
        "turns into acceptance; a case = (input, mode); distinct non-trivial = distinct cases with >= 2 characters evaluated on the whole grid")
ASSUMPTIONS = ["stdout of verbose runs is discarded by the worker", "need is computed from the gated nodes (TryStar, TypeAlias, type_params) of the tree returned under the defaults"]

VERSIONS = [None, (3, 8), (3, 9), (3, 10), (3, 11), (3, 12), (3, 13)]


def worker_init():
    base.load_repo()


def need_of(tree):
    """the version the gated nodes of the default outcome require (TryStar -> 3.11, TypeAlias / type parameters -> 3.12)"""
    needs = {(3, 8)}
    for n in ast.walk(tree):
        if isinstance(n, ast.TryStar):
            needs.add((3, 11))
        elif isinstance(n, ast.TypeAlias):
            needs.add((3, 12))
        elif isinstance(n, (ast.FunctionDef, ast.AsyncFunctionDef, ast.ClassDef)) and getattr(n, "type_params", None):
            needs.add((3, 12))
    _needs[0] = needs
    return max(needs)


_needs = [set()]


def check_case(acc, src, mode, origin):
    case = {"src": src, "mode": mode}
    d = base.parse(src, mode)
    if d.kind == "timeout":
        acc.inconc("case-watchdog", case)
        return
    dsig = d.sig()
    acc.evals += 1
    acc.count("class_" + origin)
    acc.count("default_outcome_" + d.kind)
    if len(src) >= 2:
        acc.nontrivial(base.h64(mode, src))
    if acc.evals % 499 == 1:
        acc.sample({"mode": mode, "src": src[:80], "default": d.brief()[:60]})
    need = need_of(d.value) if d.accepted else None
    for v in VERSIONS:
        for verbose in (False, True):
            if v is None and not verbose:
                continue
            if verbose and len(src) > 400:
                continue
            o = base.parse(src, mode, py_version=v, verbose=verbose)
            acc.count("grid_evaluations")
            if o.kind == "timeout":
                acc.inconc("case-watchdog", case)
                return
            cfg = {"py_version": list(v) if v else None, "verbose": verbose}
            s = o.sig()
            if verbose:
                # (a) verbose is inert: compare with the non-verbose outcome under the same version
                ref = dsig if v is None else _nv.get(v)
                if ref is not None and s != ref:
                    acc.violation("verbose-changes-outcome", {**case, **cfg}, {"quiet": _short(ref), "verbose": _short(s)})
                continue
            _nv[v] = s
            if v is not None:
                # an option of one call must not leak into a later call that does not pass it
                acc.count("default_after_option_checks")
                d2 = base.parse(src, mode)
                if d2.kind != "timeout" and d2.sig() != dsig:
                    acc.violation("option-leaks-into-later-default-parse", {**case, **cfg}, {"default_before": _short(dsig), "default_after": _short(d2.sig())})
            if d.accepted:
                if v >= need:
                    if s != dsig:
                        acc.violation("sufficient-version-changes-outcome", {**case, **cfg}, {"default": _short(dsig), "got": _short(s), "need": list(need)})
                else:
                    acc.count("gated_rejections_expected")
                    # the message must name the version required by one of the program's gated constructs that v does not satisfy
                    ok = o.kind == "syntax" and any(f"{n}" in str(o.exc.msg) for n in _needs[0] if n > v)
                    if not ok:
                        acc.violation("insufficient-version-not-rejected-with-version-message", {**case, **cfg}, {"got": o.brief()[:200], "need": list(need)})
            else:
                if o.accepted:
                    acc.violation("py_version-turns-rejection-into-acceptance", {**case, **cfg}, {"default": d.brief()[:120]})
                elif s != dsig:
                    # a program that is rejected anyway: lowering the version may not change anything ("only ever turns acceptance ... into")
                    if v < (3, 12) and o.kind == "syntax" and "only supported in Python" in str(o.exc.msg) and _GATED_TEXT.search(src):
                        acc.finding("F15a", src[:80])
                    else:
                        acc.violation("rejection-differs-under-py_version", {**case, **cfg}, {"default": _short(dsig), "got": _short(s)})
    _nv.clear()


_nv = {}
# input side of finding F15a: the rejected text contains version-gated syntax, so a speculative parse can reach a version check
_GATED_TEXT = re.compile(r"except\s*\*|\btype\s+\w|\b(?:def|class)\s+\w+[^\n\[]{0,3}\[")


def _short(s):
    return [str(x)[:200] for x in s]


GATED = [
    "try:\n    pass\nexcept* A:\n    pass\n", "type X = int\n", "type X[T] = list[T]\n", "def f[T](x: T) -> T: pass\n", "class A[T, *Ts, **P]: pass\n", "async def f[T](): pass\n",
    "if a:\n    try:\n        b\n    except* (C, D) as e:\n        f\n    else:\n        g\n", "def outer():\n    type Y = int\n    def g[T](): pass\n", "class K:\n    type Z[T: int] = T\n",
    "x = 1\ntry:\n    pass\nexcept* E:\n    pass\ntype W = str\n", "def f(): pass\ntype X = int; y = 2\n", "@dec\nclass A[T](B): pass\n",
    "match x:\n    case 1:\n        type M = int\n", "for i in j:\n    try: pass\n    except* A: pass\n", "with a:\n    def h[T: (int, str) = int](): pass\n" if False else "with a:\n    def h[T: (int, str)](): pass\n",
    "try:\n    pass\nexcept A:\n    pass\n", "type = 1\n", "type(x)\n", "print(type)\n", "x = type[int]\n", "match = 1\n", "def f(a, /, b): pass\n", "x = (y := 1)\n", "with (a as b, c as d): pass\n",
    "try:\n    pass\nexcept *A:\n    pass\n" if False else "lambda: (yield)\n",
]
# refused after the parse for another reason than the version (a name that is no identifier): the same refusal at every version
GATED += ["type X = \u00b2\n", "try: \u00b2\nexcept* E: pass\n", "def f[T](): a\u00b2\n", "class A[T\u00b2]: pass\n", "type \u0661 = int\n", "try:\n    pass\nexcept* E as e\u00b9:\n    pass\n"]
# gated constructs next to a call macro whose tokens are read twice ('match' starts a match statement first)
GATED += [g + m for g in ("type X = int\n", "try:\n    pass\nexcept* E:\n    pass\n", "def f[T](): pass\n") for m in ("match!(a, b)\n", "match !(a b, c)\n")]
GATED += [m + g for g in ("type X = int\n", "class A[T]: pass\n") for m in ("match!(a, b)\n",)] + ["type X = int\nmatch!(a, b)\ntry:\n    pass\nexcept* E:\n    pass\n"]
GATED = [g for g in GATED if g]


def run_shard(shard):
    acc = Acc()
    if "replay" in shard:
        c = shard["replay"]
        check_case(acc, c["src"], c["mode"], "replay")
        return acc.dump()
    rnd = random.Random(f"{shard['seed']}:{shard['kind']}:{shard.get('idx', 0)}")
    kind = shard["kind"]
    if kind == "gated":
        for s in GATED:
            check_case(acc, s, "exec", "gated")
            check_case(acc, gen_xonsh.char_edits(rnd, s, 1), "exec", "gated-mutant")
            check_case(acc, "x = $(ls)\n" + s, "exec", "gated-after-xonsh") if False else None
        for s in gen_py.EVAL_SEEDS if hasattr(gen_py, "EVAL_SEEDS") else ["a", "a + b", "[x for x in y]", "lambda: 0", "(a := 1)", "a if b else c", "f(", "1 +", "a b"]:
            check_case(acc, s, "eval", "eval")
    elif kind == "mix":
        pool = list(gen_xonsh.XONSH_STMTS + gen_xonsh.PY_STMTS + gen_py.SEEDS + gen_xonsh.UNTERMINATED + GATED * 3)
        for _ in range(shard["n"]):
            s = rnd.choice(pool)
            r = rnd.random()
            if r < 0.45:
                check_case(acc, s, "exec", "valid-ish")
            elif r < 0.85:
                check_case(acc, gen_xonsh.char_edits(rnd, s), "exec", "mutant")
            else:
                check_case(acc, s + rnd.choice(GATED), "exec", "with-gated")
    elif kind == "corpus":
        stmts = []
        for path in shard["files"]:
            text = corpus.read(path)
            if text:
                stmts.extend(s for s in corpus.statements(text) if len(s) < 600)
        rnd.shuffle(stmts)
        for s in stmts[: shard["n"]]:
            check_case(acc, s if rnd.random() < 0.6 else gen_xonsh.char_edits(rnd, s, 1), "exec", "corpus")
    return acc.dump()


def plan(tier, seed):
    rnd = random.Random(seed)
    q = tier == "quick"
    shards = [{"kind": "gated", "seed": seed}]
    for i in range(15 if q else 120):
        shards.append({"kind": "mix", "seed": seed, "idx": i, "n": 200 if q else 400})
    files = corpus.files()
    rnd.shuffle(files)
    for i in range(16 if q else 128):
        shards.append({"kind": "corpus", "seed": seed, "idx": i, "files": files[i * 4 : i * 4 + 4], "n": 100 if q else 200})
    return {"shards": shards}


def finish(acc, tier, seed):
    reasons = []
    need = 2500 if tier == "quick" else 30000
    if acc.evals < need:
        reasons.append(f"only {acc.evals} inputs evaluated on the grid (< {need})")
    if acc.counters.get("gated_rejections_expected", 0) < 20:
        reasons.append("version gating was hardly exercised")
    return reasons
