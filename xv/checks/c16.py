"""C16 - shipped generated parsers are exactly what their grammars generate."""
from __future__ import annotations

import os
import random
import shutil
import tempfile

from .. import base, regen
from ..acc import Acc

LEVEL = "translation_validation"
RULE = ("each (grammar, shipped module) pair is regenerated with the documented command under several PYTHONHASHSEED values; "
        "a case = (pair, hash seed); non-trivial = generation succeeded and every rule method was compared with the shipped one")
ASSUMPTIONS = [
    "CPython's ast.parse/ast.dump is the normaliser: formatting, comments, imports, docstrings, return/argument annotations are not compared",
    "the audit hook sees every file the generator process opens for writing",
]


def plan(tier, seed):
    rnd = random.Random(seed)
    seeds = [0, 1, 7] if tier == "quick" else [0, 1, 7, 42, 4294967295] + [rnd.randrange(2**32) for _ in range(11)]
    if tier == "quick" and seed:
        seeds.append(rnd.randrange(2**32))
    return {"shards": [{"pair": p, "hashseed": s} for p in regen.PAIRS for s in seeds], "shard_timeout": 600}


def run_shard(shard):
    acc = Acc()
    if "replay" in shard:
        shard = shard["replay"]
    pair, hs = shard["pair"], shard["hashseed"]
    info = regen.PAIRS[pair]
    shipped_path = os.path.join(base.REPO, info["shipped"])
    before = {k: regen.sha(os.path.join(base.REPO, v["shipped"])) for k, v in regen.PAIRS.items()}
    scratch = tempfile.mkdtemp(prefix="xv_c16_")
    case = {"pair": pair, "hashseed": hs}
    try:
        rc, out, writes, err = regen.generate(pair, hs, scratch)
        acc.evals += 1
        if rc != 0 or not os.path.exists(out):
            acc.violation("generator-failed", case, {"returncode": rc, "stderr": err})
            return acc.dump()
        after = {k: regen.sha(os.path.join(base.REPO, v["shipped"])) for k, v in regen.PAIRS.items()}
        if before != after:
            acc.violation("generator-rewrote-shipped-file", case, {"before": before, "after": after})
        stray = [w for w in writes if not w.startswith(scratch + os.sep)]
        acc.count("files_opened_for_writing", len(writes))
        if stray:
            acc.violation("generator-wrote-outside-output", case, {"paths": stray[:5]})
        with open(shipped_path, encoding="utf-8") as f:
            shipped_src = f.read()
        with open(out, encoding="utf-8") as f:
            gen_src = f.read()
        diffs, nmethods = regen.compare(shipped_src, gen_src, info["cls"])
        acc.count("methods_compared", nmethods)
        acc.count(f"methods_{pair}", nmethods)
        acc.seen("output_sha", (pair, regen.sha(out)))
        if nmethods > 10:
            acc.nontrivial(base.h64(pair, hs))
        if diffs:
            acc.violation("shipped-differs-from-generated", case, {"n": len(diffs), "first": diffs[:8]})
        acc.sample({"pair": pair, "hashseed": hs, "methods": nmethods, "sha256": regen.sha(out)[:16], "diffs": len(diffs)})
    finally:
        shutil.rmtree(scratch, ignore_errors=True)
    return acc.dump()


def finish(acc, tier, seed):
    reasons = []
    by_pair = {}
    for pair, h in acc.sets.get("output_sha", ()):
        by_pair.setdefault(pair, set()).add(h)
    for pair, hs in by_pair.items():
        if len(hs) > 1:
            acc.violation("nondeterministic-generation", {"pair": pair, "hashseed": "all"}, {"distinct_outputs": sorted(hs)})
    if not acc.violations and set(by_pair) != set(regen.PAIRS):
        reasons.append("not every pair was generated")
    return reasons


def evidence_extra(acc, tier, seed):
    n = acc.counters.get("methods_xonsh", 0), acc.counters.get("methods_meta", 0)
    return {
        "programs": acc.counters.get("methods_compared", 0),
        "disagreements_checked": acc.counters.get("violations", 0),
        "exhaustive": True,
        "explanation": f"both shipped pairs, every rule method (xonsh {n[0]}, meta {n[1]} summed over hash seeds); hash seeds are sampled",
    }
