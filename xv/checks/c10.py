"""C10 - f-strings (tokens and trees) agree with CPython, incl. nested fields and specs."""
from __future__ import annotations

import ast
import itertools
import io
import random
import tokenize as pytok

from .. import base, corpus, gen_py, tokcheck
from ..acc import Acc
from ..compare import bytecols_to_charcols, diff_trees

LEVEL = "exploration"
RULE = ("f-string literals from the product prefix x quote style x literal parts (plain, each escape class, doubled braces, other-kind quotes, "
        "non-ASCII, continuation) x field forms (expression kinds, !r/!s/!a, '=', specs with 0-2 nested fields, empty spec) x nesting depth <= 3 x "
        "neighbourhood (another string/f-string/dict/brace later on the line, implicit concatenation), plus every corpus statement containing an "
        "f-string; kept iff CPython 3.12 accepts; token streams (significant tokens, f-string middles merged) and trees (values and spans) must equal "
        "CPython's; distinct non-trivial = distinct sources with at least one replacement field or escape that reached both comparators")
ASSUMPTIONS = ["reference = tokenize/ast.parse of CPython 3.12.1", "`=` debug fields whose expression contains !=, a comment or a nested f-string are skipped (CPython 3.12.1 computes their text wrongly)", "oracle normalisations of 3.12.1 artefacts: the empty Constant appended to a format spec ending in a nested field is dropped; empty FSTRING_MIDDLE tokens are dropped", "CPython splits a literal part at doubled braces (a{{b -> 'a{','b'); adjacent FSTRING_MIDDLE tokens are merged on both sides and only text is compared for them"]


_watchdog = {"fired": 0}


def worker_init():
    base.load_repo()
    base.CASE_TIMEOUT = 10.0  # f-string sources are short; three watchdog firings stop a shard (reported as inconclusive)


def _merge_middles(sig):
    """merge adjacent FSTRING_MIDDLE tokens; undouble braces (CPython reports a{{b as 'a{' + 'b')"""
    out = []
    for t in sig:
        if t[0] == "FSTRING_MIDDLE":
            text = t[1].replace("{{", "{").replace("}}", "}")
            if not text:
                continue  # CPython 3.12.1 emits an empty FSTRING_MIDDLE for an empty format spec
            if out and out[-1][0] == "FSTRING_MIDDLE":
                out[-1] = ("FSTRING_MIDDLE", out[-1][1] + text)
            else:
                out.append(("FSTRING_MIDDLE", text))
        else:
            out.append(t)
    return out


def _xtok(src):
    from peg_parser.tokenize import generate_tokens

    return list(generate_tokens(src))


def check_case(acc, src, origin):
    if _watchdog["fired"] >= 3:
        acc.count("skipped_after_watchdog")
        return
    ptoks = gen_py.py_tokens(src)
    if ptoks is None or not any(t.type == pytok.FSTRING_START for t in ptoks):
        acc.count("skipped_no_fstring")
        return
    kind, cp = base.cpython(src, "exec")
    if kind != "tree":
        acc.count("skipped_cpython_" + kind)
        return
    if debug_field_quirk(ptoks):
        acc.count("skipped_reference_defect_in_debug_field")
        return
    if raw_spec_escape_quirk(ptoks):
        acc.count("skipped_reference_defect_raw_spec_escape")
        return
    _drop_empty_spec_constants(cp)
    if "\\\n" in src and _continuation_end_quirk(cp, src):
        acc.count("normalised_reference_continuation_end")
    case = {"src": src, "origin": origin}
    acc.count("class_" + origin)
    nontrivial = any(t.type == pytok.OP and t.string == "{" for t in ptoks) or "\\" in src
    # --- tokens
    exp = _merge_middles(tokcheck.placement_only(tokcheck.cpython_sig(ptoks)))
    out = base.guarded(_xtok, src)
    if out.kind == "timeout":
        _watchdog["fired"] += 1
        acc.inconc("case-watchdog", case)
        return
    acc.evals += 1
    if nontrivial:
        acc.nontrivial(base.h64(src))
    if acc.evals % 997 == 1:
        acc.sample({"origin": origin, "src": src[:120]})
    problems = []
    if out.kind != "tree":
        problems.append(("tokenizer-rejects-valid-fstring", {"outcome": out.brief()}))
    else:
        obs = _merge_middles(tokcheck.placement_only(tokcheck.xonsh_sig(out.value)))
        d = tokcheck.first_diff(exp, obs)
        acc.count("token_comparisons")
        if d:
            problems.append(("fstring-tokens-differ", {"index": d[0], "cpython": repr(d[1]), "xonsh": repr(d[2])}))
    # --- tree
    pout = base.parse(src, "exec")
    if pout.kind == "timeout":
        _watchdog["fired"] += 1
        acc.inconc("case-watchdog", case)
        return
    acc.count("tree_comparisons")
    if not pout.accepted:
        problems.append(("parser-rejects-valid-fstring", {"outcome": pout.brief()}))
    else:
        diffs = diff_trees(cp, pout.value)
        if diffs:
            problems.append(("fstring-tree-differs", {"n": len(diffs), "diffs": [list(map(str, d)) for d in diffs[:6]]}))
    for kind, detail in problems:
        fid = classify(src, ptoks, kind, detail)
        if fid:
            acc.finding(fid, src[:80])
        else:
            acc.violation(kind, case, detail)
            break


def _continuation_end_quirk(tree, src):
    """oracle normalisation: CPython 3.12.1 splits a literal part at a doubled brace or a named escape, and when what is left after the
    split is only a backslash continuation, the part it reports ends *before* the continuation; the same literal without such a split
    ends after it (on the next line, column 0), which is where the text of the part ends. Returns the number of ends moved."""
    lines = src.encode("utf-8", "surrogatepass").split(b"\n")
    n = 0
    for js in ast.walk(tree):
        if isinstance(js, ast.JoinedStr):
            for v in js.values:
                while isinstance(v, ast.Constant) and v.end_lineno and v.end_lineno < len(lines) and lines[v.end_lineno - 1][v.end_col_offset :] in (b"\\", b"\\\r"):
                    v.end_lineno, v.end_col_offset = v.end_lineno + 1, 0
                    n += 1
    return n


def _drop_empty_spec_constants(tree):
    """oracle normalisation: CPython 3.12.1 appends Constant('') to a format spec that ends with a nested replacement field"""
    for n in ast.walk(tree):
        if isinstance(n, ast.FormattedValue) and isinstance(n.format_spec, ast.JoinedStr):
            vals = n.format_spec.values
            # 3.12.1 also leaves the text after a \\N{...} escape of a spec in a Constant of its own (and an empty one when nothing follows)
            merged = []
            for v in vals:
                if merged and isinstance(v, ast.Constant) and isinstance(merged[-1], ast.Constant) and isinstance(v.value, str) and isinstance(merged[-1].value, str):
                    merged[-1].value += v.value
                    merged[-1].end_lineno, merged[-1].end_col_offset = v.end_lineno, v.end_col_offset
                else:
                    merged.append(v)
            vals[:] = merged
            if len(vals) >= 2 and isinstance(vals[-1], ast.Constant) and vals[-1].value == "" and isinstance(vals[-2], ast.FormattedValue):
                vals.pop()
            # ... and an empty one in front of a nested field that follows the line break ending a single-quoted spec (f"{f:\n{w}}"): the
            # empty FSTRING_MIDDLE its tokenizer emits at the line break becomes a Constant('') (alone, f"{f:\n}", it is dropped by CPython itself)
            if len(vals) >= 2 and isinstance(vals[0], ast.Constant) and vals[0].value == "" and isinstance(vals[1], ast.FormattedValue):
                vals.pop(0)


def raw_spec_escape_quirk(ptoks):
    """CPython 3.12.1 decodes backslash escapes in the format spec of a *raw* f-string (rf'{a:\\n}' yields a newline; rf'{x:\\N{y}}' is a
    UnicodeDecodeError): a raw f-string with a backslash in a spec is outside what this reference can judge"""
    stack = []  # (is_raw, brace depth at which a spec is open or None)
    for t in ptoks:
        if t.type == pytok.FSTRING_START:
            stack.append(["r" in t.string.rstrip("'\"").lower(), 0, set()])
        elif t.type == pytok.FSTRING_END and stack:
            stack.pop()
        elif stack and t.type == pytok.OP and t.string == "{":
            stack[-1][1] += 1
        elif stack and t.type == pytok.OP and t.string == "}":
            stack[-1][2].discard(stack[-1][1])
            stack[-1][1] -= 1
        elif stack and t.type == pytok.OP and t.string == ":" and stack[-1][1] > 0:
            stack[-1][2].add(stack[-1][1])
        elif stack and t.type == pytok.FSTRING_MIDDLE and stack[-1][0] and stack[-1][1] in stack[-1][2] and "\\" in t.string:
            return True
    return False


def debug_field_quirk(ptoks):
    """CPython 3.12.1 computes the text of a `=` debug field wrongly when the expression contains `!=` (the text is cut at the `!`)
    a string that holds a `#` (cut there as if it were a comment) or a nested f-string (its escapes are decoded / its text is truncated): such
    fields are outside what this reference can judge. (Leaving real comments out of the text is deliberate - CPython's own tests assert it.)"""
    toks = [t for t in ptoks if t.type not in (pytok.NL, pytok.COMMENT)]
    for i, t in enumerate(toks):
        if t.type == pytok.OP and t.string == "=" and i + 1 < len(toks) and toks[i + 1].type == pytok.OP and toks[i + 1].string in ("!", ":", "}"):
            depth = 0
            j = i - 1
            while j >= 0:
                u = toks[j]
                if u.type == pytok.OP and u.string in ")]}":
                    depth += 1
                elif u.type == pytok.OP and u.string in "([{":
                    if depth == 0:
                        break
                    depth -= 1
                if u.type in (pytok.FSTRING_START, pytok.FSTRING_END) or (u.type == pytok.OP and u.string == "!=") or (u.type == pytok.STRING and "#" in u.string):
                    return True
                j -= 1
    return False


def _debug_markers(src, ptoks):
    """(start, end) offsets of the `=` debug markers of replacement fields (with the whitespace around them), from CPython's tokens"""
    offs = [0]
    for line in io.StringIO(src).readlines():
        offs.append(offs[-1] + len(line))
    out = []
    depth = 0
    toks = [t for t in ptoks if t.type not in (pytok.NL, pytok.COMMENT)]
    for i, t in enumerate(toks):
        if t.type == pytok.FSTRING_START:
            depth += 1
        elif t.type == pytok.FSTRING_END:
            depth -= 1
        elif depth > 0 and t.type == pytok.OP and t.string == "=" and 0 < i < len(toks) - 1:
            nxt, prv = toks[i + 1], toks[i - 1]
            if nxt.type == pytok.OP and nxt.string in ("!", ":", "}"):
                out.append((offs[prv.end[0] - 1] + prv.end[1], offs[nxt.start[0] - 1] + nxt.start[1]))
    return out


def strip_deep_specs(src, ptoks):
    """the neutraliser of finding F10c, computed from CPython's tokens: every format spec of a replacement field that itself sits
    inside a format spec (depth >= 2) is removed (from its ':' up to the field's closing brace); returns None if there is none"""
    offs = [0]
    for line in io.StringIO(src).readlines():
        offs.append(offs[-1] + len(line))

    def ab(pos):
        return offs[pos[0] - 1] + pos[1]

    stack = []  # entries: ["f"] | ["field", bracket_depth, in_spec, spec_level]
    cuts = []
    cut_from = None
    cut_owner = None
    for t in ptoks:
        if t.type == pytok.FSTRING_START:
            stack.append(["f"])
        elif t.type == pytok.FSTRING_END:
            while stack and stack[-1][0] != "f":
                stack.pop()
            if stack:
                stack.pop()
        elif t.type == pytok.OP and stack:
            top = stack[-1]
            if t.string == "{" and (top[0] == "f" or (top[0] == "field" and top[2])):
                level = top[3] + 1 if top[0] == "field" else 0
                stack.append(["field", 0, False, level])
            elif top[0] == "field" and not top[2]:
                if t.string in "([{":
                    top[1] += 1
                elif t.string in ")]" or (t.string == "}" and top[1] > 0):
                    top[1] -= 1
                elif t.string == ":" and top[1] == 0:
                    top[2] = True
                    if top[3] >= 1 and cut_from is None:
                        cut_from, cut_owner = ab(t.start), top
                elif t.string == "}" and top[1] == 0:
                    stack.pop()
            elif top[0] == "field" and top[2] and t.string == "}":
                if cut_owner is top:
                    cuts.append((cut_from, ab(t.start)))
                    cut_from = cut_owner = None
                stack.pop()
    if not cuts:
        return None
    out = src
    for a, b in sorted(cuts, reverse=True):
        out = out[:a] + out[b:]
    return out


_DEEP_SPEC = None


def classify(src, ptoks, kind, detail):
    """open findings of the f-string support, each with an input trigger; attribution is counterfactual: with every trigger
    removed (and nothing else changed) the same source passes both exact comparators"""
    import re

    neutral = src
    n2 = strip_deep_specs(src, ptoks)
    if n2 is not None and n2 != neutral and _passes(n2):
        return "F10c"
    return None


def _passes(src):
    probe = Acc()
    check_case(probe, src, "counterfactual")
    # the neutralised source must be clean apart from the two position-only findings, which are independent of the trigger removed
    return probe.evals > 0 and not probe.violations and not probe.findings


# ------------------------------------------------------------------------------------------------------------------
PREFIXES = ["f", "F", "rf", "fr", "Rf", "fR", "FR", "rF", "RF", "Fr"]
LIT_PLAIN = ["", "a", "abc def", " ", "x=", "%s", "#nc", "$HOME", "é", "日本", "a.b", "1+1", ":", "!", "!r", "=", "?", ",", ";"]
LIT_ESC = ["\\n", "\\t", "\\\\", "\\x41", "\\101", "\\N{BULLET}", "\\u00e9", "\\'", '\\"', "\\0", "\\d", "\\{", "\\N{LATIN SMALL LETTER A}", "\\N{HYPHEN-MINUS}", "\\N{NO-BREAK SPACE}", "\\N{DIGIT ONE}"]
LIT_BRACE = ["{{", "}}", "{{}}", "{{x}}", "a{{b", "}}{{", "{{{{"]
EXPRS = ["a", "a.b", "f(x)", "a + 1", "a[0]", "a['k']", "(lambda: 0)()", "(a if b else c)", "a if b else c", "[1, 2][0]", "{'k': 1}['k']", "{1, 2}", "(yield)" if False else "not a",
         "a != b", "a == b", "x", "y1", "-a", "a, b", "*a, b" if False else "(a, b)", "len(s)", "a  ", " a", "a  +  b", "3.14", "0x1f", "'s'", '"t"', "d[\"k\"]", "a := 1" if False else "(a := 1)",
         "a<b>c", "a >= b", "a|b", "a or b"]
CONV = ["", "", "", "!r", "!s", "!a"]
SPECS = ["", "", "", ":", ":>10", ":.2f", ":{w}", ":{w}.{p}", ":>{w}.{p}f", ":{w}x", ":x{w}", ":%Y-%m-%d", ":^10", ":{ w }", ":{w!r}", ":{w:>{z}}", ": ", ":#x", ":\\n" if False else ":,",
         # a spec that starts with '=' (not the walrus), a backslash before a brace, a named escape, escapes
         ":=^10", ":=", ":=+6d", ":\\{w}", ":\\", ":x\\{w}\\", ":\\N{EM DASH}", ":\\N{BULLET}>5", ":\\N{HYPHEN-MINUS}>5", ":\\N{LEFT-TO-RIGHT MARK}", ":\\t>4", ":\\\\"]


def gen_field(rnd, quote, depth):
    e = rnd.choice(EXPRS)
    if depth < 3 and rnd.random() < 0.18:
        # nested f-string in the field: other quote kind, or (3.12) the same, single or triple quoted
        inner_q = rnd.choice(["'", '"', "'", '"', "'''", '"""'])
        e = gen_fstring(rnd, depth + 1, force_quote=inner_q)
    if len(quote) == 1:
        e = e.replace("\n", " ")
    dbg = "=" if rnd.random() < 0.15 else ""
    if dbg and rnd.random() < 0.3:
        dbg = rnd.choice([" = ", "= ", " ="])
    if dbg and len(quote) == 3 and rnd.random() < 0.25:
        dbg = rnd.choice(["=\n", "=\n\n", " =\n  \n ", "\n=\n", "=  \n\t\n"])  # white space after `=` may span blank lines
    conv = rnd.choice(CONV)
    spec = rnd.choice(SPECS)
    r = rnd.random()
    if r < 0.08:
        # a spec may contain the quote character of the other kind (it matters which f-string the spec belongs to when nested)
        other = '"' if quote[0] == "'" else "'"
        spec = rnd.choice([":" + other + "^5", ":" + other, ":>" + other + "{w}" + other])
    elif r < 0.12 and len(quote) == 3:
        spec = rnd.choice([":\n>3", ":>3\n", ":\n{w}\n"])  # a spec of a triple-quoted f-string may span lines
    elif r < 0.14 and len(quote) == 1 and not dbg:
        # a line end terminates the format spec of a single-quoted f-string; the field goes on (white space only)
        spec = rnd.choice([":d\n", ":>3\n  ", ":{w}\n", ":\n"])
    elif r < 0.16 and len(quote) == 3:
        q = quote[0]  # one or two quote characters do not end a triple-quoted literal, in a spec either
        spec = rnd.choice([":" + q + ">5", ":" + q + q + "^{w}", ":>" + q + "{w}" + q + " ", ":x" + q + "x"])
    if len(quote) == 3 and rnd.random() < 0.1:
        e = e + rnd.choice(["\n", "  # c\n", "\n  "])
    return "{" + e + dbg + conv + spec + "}"


def gen_fstring(rnd, depth=0, force_quote=None):
    prefix = rnd.choice(PREFIXES)
    quote = force_quote or rnd.choice(["'", '"', "'''", '"""'])
    raw = "r" in prefix.lower()
    parts = []
    for _ in range(rnd.randint(0, 4)):
        r = rnd.random()
        if r < 0.4:
            parts.append(gen_field(rnd, quote, depth))
        elif r < 0.65:
            parts.append(rnd.choice(LIT_PLAIN))
        elif r < 0.82:
            parts.append(rnd.choice(LIT_ESC))
        elif r < 0.92:
            parts.append(rnd.choice(LIT_BRACE))
        elif r < 0.96:
            parts.append("'" if quote[0] == '"' else '"')
        else:
            parts.append("\\\n" if not raw else "z")
            if len(quote) == 3 and rnd.random() < 0.5:
                parts[-1] = "\n"
    body = "".join(parts)
    return prefix + quote + body + quote


NEIGHBOURS = ["x = {F}\n", "print({F}, {G})\n", "{F}; {{1}}\n", "d = {{{F}: 1}}\n", "x = {F} 'tail'\n", "x = 'head' {F}\n", "x = {F} {G}\n", "x = ({F}\n     {G})\n", "x = {F}  # {{c}}\n",
              "f({F}, k={G}, z={{'a': {F}}})\n", "x = [{F} for i in y if {G}]\n", "assert {F}, {G}\n", "x = {F}.format(1)\n", "x = {F} + {G} % 3\n", "x = {F}; y = {{}}\n", "x = {F} if {G} else {{}}\n",
              "x = 'a' {F} 'b' {G} 'c'\n", "x = {F}[0]\n", "lambda: {F}\n", "x = u'k' {F}\n" if False else "x = r'\\k' {F}\n", "def f():\n    return {F}\n", "x = {F} \\\n    {G}\n",
              # empty literals next to an f-string leave no Constant behind
              "x = {F} ''\n", "x = \"\" {F}\n", "x = '' {F} '' 'b' \"\"\n", "x = {F} f''\n", "x = ({F}\n     ''\n     {G})\n", "x = {F} \"\"\"\"\"\" {G}\n"]


def gen_case(rnd):
    tmpl = rnd.choice(NEIGHBOURS)
    return tmpl.replace("{{", "\0").replace("}}", "\1").replace("{F}", gen_fstring(rnd)).replace("{G}", gen_fstring(rnd)).replace("\0", "{").replace("\1", "}")


FIXED = ["x = f'a'\n", "x = f''\n", "x = f'{a}'\n", "x = f'{a}{b}'\n", "x = f'a{b}c'\n", "print(f\"{a}\", f\"{b}\")\n", "f'{a}'; {1}\n", "x = f\"a{{b}}\"\n", "x = f\"{a:>{w}}\"\n", "x = f\"a\\n\"\n",
         "x = f'{a!r}'\n", "x = f'{a=}'\n", "x = f'{a = }'\n", "x = f'{a=!r:>10}'\n", "x = f'{a:{b}.{c}}'\n", "x = f'{a:}'\n", "x = f'{f\"{b}\"}'\n", "x = f\"{f\"{b}\"}\"\n", "x = f'''{a\n}'''\n",
         "x = f'''a\n{b}\nc'''\n", "x = f'{a}' 'b'\n", "x = 'a' f'{b}'\n", "x = f'a' f'b'\n", "x = f'{a}' f'{b}'\n", "x = rf'\\d{a}'\n", "x = f'\\N{BULLET}{a}'\n", "x = f'\\N{HYPHEN-MINUS}{a}'\n", "x = f'a\\N{NO-BREAK SPACE}b{a!r}'\n", "x = f'{a:\\N{HYPHEN-MINUS}^7}'\n", "x = f'{{'\n", "x = f'}}'\n",
         "x = f'{a:%Y-%m-%d}'\n", "x = f'{a!s:^{w}}'\n", "x = f'{a:{b:{c}}}'\n", "x = f'{{{a}}}'\n", "x = f'{a}}}'\n", "x = f'{{{{'\n", "x = f'{\"}\"}'\n", "x = f'{a}' \\\n  f'{b}'\n", "x = f'{d[\"k\"]}'\n",
         "x = f'{a,}'\n", "x = f'{*a,}'\n", "x = f\'\'\'{a=\n\n}\'\'\'\n", "x = f\'\'\'{a =\n  \n !r:>3}\'\'\'\n", "x = f\'\'\'z{a + 1 =\n\n\n:>10}b\'\'\'\n", "x = f'{lambda: 0}'\n" if False else "x = f'{(lambda: 0)}'\n", "x = f'{a:\\n}'\n" if False else "x = f'{a:x}'\n", "x = F'{a}'\n", "x = fR'{a}\\n'\n", "x = f'é{a}ü'\n", "x = f'{é}'\n",
         "x = f'{a}' ''\n", "x = '' f'{a}'\n", "x = f'' ''\n", "x = '' f'{a}' '' 'b' ''\n", "x = f'''{a:'>5}'''\n", 'x = f"""{a:"">5}"""\n', "x = f'''{a:>5}' '''\n"]
# comments inside a `=` debug field (CPython leaves them out of the text and keeps their line ends) and escaped quotes in a format spec
FIXED += ["x = f\"{1+2 = # my comment\n  }\"\n", "x = f'''{a # c\n=}'''\n", "x = f'{a=# c\n}'\n", "x = f'''{a = # c\n # d\n\n  !r:>3}'''\n", "x = f'''{a + # c\n b = }'''\n", "x = f'''{(a, # c\n b) = # d\n}'''\n",
          "x = f'''{a = #\n}''' f'{b}'\n", "x = f\"\"\"{\n# c\na = # d\n\n}\"\"\"\n", "x = f'''{a # 'q'\n=}'''\n", "x = f'''{a # \"\"\"\n= }'''\n",
          "f'{a:\\'\n}'\n", "x = f'''{a:\\'''\n>3}'''\n", "x = f\"{a!r:{w}\\\"\n}\"\n", "x = f'{a:\\'}'\n", "x = f'{a:\\'>3}' 'b'\n", "x = rf'{a:\\'\n}'\n" if False else "x = f'{a:\\\\}'\n", "x = f'{a:{w}\\'x}'\n", "x = f\"{a:\\\"\\\"}\"\n"]


def run_shard(shard):
    acc = Acc()
    _watchdog["fired"] = 0
    if "replay" in shard:
        check_case(acc, shard["replay"].get("src", shard["replay"].get("example", "")), "replay")
        return acc.dump()
    rnd = random.Random(f"{shard['seed']}:{shard['kind']}:{shard.get('idx', 0)}")
    kind = shard["kind"]
    if kind == "fixed":
        for s in FIXED:
            check_case(acc, s, "fixed")
        # what follows a literal that ran over lines (a backslash continuation inside a field, a field spread over lines): the line
        # structure of the next statement (NEWLINE/NL, INDENT/DEDENT, end of input) belongs to the f-string's token stream as well
        from . import c09

        for lit, tail in itertools.product(c09.SPANNING, c09.AFTER):
            for src in ("if x:\n    " + lit + "\n" + tail, lit + "\n" + tail.lstrip(" "), ("if x:\n    " + lit + "\n" + tail).replace("\n", "\r\n")):
                check_case(acc, src, "after-spanning-literal")
    elif kind == "product":
        for _ in range(shard["n"]):
            check_case(acc, gen_case(rnd), "product")
    elif kind == "corpus":
        for path in shard["files"]:
            text = corpus.read(path)
            if text is None or ("f'" not in text and 'f"' not in text and "F'" not in text and 'F"' not in text):
                continue
            for s in corpus.statements(text):
                if len(s) < 6000 and ("f'" in s or 'f"' in s or "F'" in s or 'F"' in s):
                    check_case(acc, s, "corpus")
    return acc.dump()


def plan(tier, seed):
    rnd = random.Random(seed)
    q = tier == "quick"
    shards = [{"kind": "fixed", "seed": seed}]
    for i in range(16 if q else 128):
        shards.append({"kind": "product", "seed": seed, "idx": i, "n": 1800 if q else 5000})
    files = corpus.files()
    rnd.shuffle(files)
    if q:
        files = files[:500]
    for i in range(0, len(files), 16):
        shards.append({"kind": "corpus", "seed": seed, "idx": i, "files": files[i : i + 16]})
    return {"shards": shards}


def finish(acc, tier, seed):
    need = 12000 if tier == "quick" else 250000
    return [f"only {acc.evals} f-string sources compared (< {need})"] if acc.evals < need else []
