"""C06 - subprocess args follow source word boundaries and map to the right runtime call."""
from __future__ import annotations

import ast
import keyword
import random
import re

from .. import base
from ..acc import Acc

LEVEL = "exploration"
RULE = ("command lines are constructed as opener + words separated by 1-3 spaces/tabs + closer, each word a sequence of adjacent pieces (text over the "
        "shell-word alphabet incl. number-like/operator-like/path-like spellings and non-ASCII letters, quoted strings of every prefix and quote style, "
        "$NAME, ${expr}, @(expr), @$(cmd), nested bracket forms up to depth 3); the expected list of words with typed pieces is known by construction; "
        "the returned Call's func and args, flattened to the same normal form, must equal it; distinct non-trivial = distinct command lines with >= 2 pieces")
ASSUMPTIONS = ["normal form: Constant strings are verbatim text, BinOp(Add) chains and gluing tuples are flattened left to right, adjacent text merged; "
               "the gluing node shape itself is not prescribed", "Python reserved words are outside the property's stated quantifier; since the repair that lets keywords be words (`git config --global`) the generated words may contain them and are judged like any other word"]

FORMS = {"$(": (")", "subproc_captured"), "$[": ("]", "subproc_uncaptured"), "!(": (")", "subproc_captured_object"), "![": ("]", "subproc_captured_hiddenobject")}
ALPHA = "abcdefghijklmnopqrstuvwxyzABCXYZ0123456789_-./=:,+%^~*<>|&;@"
SPECIAL_WORDS = ["1e5x", "0x1f", "1_000", "3j", "1.", ".5", "->", "**", "//", "<<=", ":=", "...", "2>&1", "e>o", "a>&2", "&&", "||", "&", "|", ">", ">>", "<", "-l", "--opt=1", "-am",
                 "sub-cmd", "x.py", "../a/b.c", "~/.config", "/usr/bin/env", "a=b", "k:v", "1,2", ",", "+x", "%y", "^z", "*.py", "a*b?c".replace("?", ""), "http://h:80/p", "é", "naïve", "日本",
                 "föö-bär", "1..2", "a..b", "0b101", "1e-5", "1_0.0_1j", "v1.2.3", "user@host", "@", "-", "--", "a;b", ";", "==", "!=".replace("!", "="), "x=1,y=2", "C:/x", "a+b=c", "00", "0_0", "1__0".replace("__", "_"), "--global", "if=/dev/zero", "for-each-ref", "0in", "is", "not", "for.txt", "a/is/b", "--continue", "lambda", "None",
                 # words that are not stable under NFKC / case folding: subprocess words are passed verbatim, never normalised like identifiers
                 "\ufb01le.txt", "5\u00b5s", "x\u00aa", "n\u00ba=1", "\uff46\uff55\uff4c\uff4c", "\u017ft", "\u2167", "\u00b5", "a\u0301", "\u212bngstrom", "\u1e9e"]
_KW = set(keyword.kwlist)
_IDENT_CH = re.compile(r"[\w]")


import tokenize as _pytok

_SCAN = re.compile("(" + _pytok.Number + r")|(\w+)|.", re.S)


def has_keyword(text):
    """does the text, split the way a Python tokenizer splits numbers and names, contain a reserved word?"""
    for m in _SCAN.finditer(text):
        if m.group(m.lastindex or 0) and m.lastindex and m.group(m.lastindex) in _KW:
            return True
        if m.group(0) in _KW:
            return True
    return False


def rand_text(rnd):
    if rnd.random() < 0.45:
        t = rnd.choice(SPECIAL_WORDS)
    else:
        t = "".join(rnd.choice(ALPHA) for _ in range(rnd.randint(1, 7)))
    return t


STR_PREFIX = ["", "", "", "r", "b", "R", "u", "br", "Rb", "p", "pr", "f", "rf", "F", "fR", "pf"]
STR_BODY = ["wakka", "a b", "", "$foo", "x y  z", "-l", "it", "@(a)", "#c", "é", "1", "a\\n", "{x}", "(", "]"]


def rand_string(rnd):
    pre, q, body = rnd.choice(STR_PREFIX), rnd.choice(["'", '"', "'", '"', "'''", '"""']), rnd.choice(STR_BODY)
    if "b" in pre.lower() and not body.isascii():
        body = "x"
    if len(q) == 3 and "f" not in pre.lower() and rnd.random() < 0.3:
        body = rnd.choice(["x\ny", "a\n b", "\nz"])  # a triple-quoted string may run over a line end inside a word
    return pre + q + body + q


PY_EXPRS = ["x", "a + 1", "[1, 2]", "f(y)", "'s'", "name.attr", "d['k']", "a if b else c", "(1, 2)", "i for i in y", "x, y", "lambda: 0" if False else "not z", "{'a': 1}", "p[0:2]"]
ENV_EXPRS = ["x", "'a' + b", "f()", "'HOME'", "n[0]"]


class Gen:
    def __init__(self, rnd):
        self.rnd = rnd
        self.p_newline = 0.12
        self.col0 = 0  # column at which the text of the outermost command starts (prefix + opener)
        self.reserved = False  # set when a generated word contains a Python reserved word (outside the domain)

    def pieces(self, depth, closer):
        """one word: (source text, expected pieces)"""
        rnd = self.rnd
        src = ""
        exp = []
        plain = []  # the plain-text pieces (known by construction), everything else as a separator
        n = 1 if rnd.random() < 0.6 else rnd.randint(2, 3)
        for _ in range(n):
            r = rnd.random()
            prev_ident = bool(src) and (_IDENT_CH.match(src[-1]) is not None)
            prev_kind = exp[-1][0] if exp else None
            if r < 0.5:
                t = rand_text(rnd)
                if prev_kind == "env" and _IDENT_CH.match(t[0]):
                    t = "/" + t  # the text must not extend the variable name
                if prev_kind == "text" and src and re.search(r"[\w]$", src) and False:
                    pass
                src += t
                exp.append(("text", t))
                plain.append(t)
            elif r < 0.64:
                if src and src[-1] in "'\"":
                    continue  # (two adjacent quotes would read as an empty string or a triple quote)
                # a preceding letter may turn into a string prefix (cut -f"1"): the word is passed verbatim all the same
                s = rand_string(rnd)
                if prev_kind == "env" and s[0] not in "'\"":
                    continue  # (prefix letters would extend the variable's name)
                src += s
                exp.append(("text", s))
                plain.append(" ")
            elif r < 0.74:
                name = rnd.choice(["HOME", "x", "PATH", "_v1", "Ünï", "b", "rb", "f", "u", "R", "p", "Br", "fr"])  # (also names that spell a string prefix)
                if src.endswith("$") or (src and src[-1] == "@"):
                    continue
                src += "$" + name
                exp.append(("env", name))
                plain.append(" ")
            elif r < 0.8:
                if src and src[-1] in "$@":
                    continue
                e = rnd.choice(ENV_EXPRS)
                src += "${" + e + "}"
                exp.append(("envexpr", ast.dump(ast.parse(e, mode="eval").body)))
                plain.append(" ")
            elif r < 0.88:
                if src and src[-1] in "$@!":
                    continue
                e = rnd.choice(PY_EXPRS)
                src += "@(" + e + ")"
                want = ast.parse("(" + e + ")", mode="eval").body
                exp.append(("py", ast.dump(want)))
                plain.append(" ")
            elif r < 0.93 and depth < 3:
                if src and src[-1] in "$@!":
                    continue
                s, words = self.line(depth + 1, ")")
                src += "@$(" + s + ")"
                exp.append(("inject", words))
                plain.append(" ")
            elif depth < 3:
                if src and src[-1] in "$@!":
                    continue
                op = rnd.choice(list(FORMS))
                cl, fn = FORMS[op]
                s, words = self.line(depth + 1, cl)
                src += op + s + cl
                exp.append(("sub", fn, words))
                plain.append(" ")
        if not exp:
            t = rand_text(rnd)
            src, exp, plain = t, [("text", t)], [t]
        # reserved words are judged on the plain-text pieces of the word, which are known by construction
        if has_keyword("".join(plain)):
            self.reserved = True
        return src, exp

    def line(self, depth, closer):
        rnd = self.rnd
        nwords = rnd.randint(1, 6 if depth == 0 else 3)
        parts = []
        words = []
        for _ in range(nwords):
            s, e = self.pieces(depth, closer)
            parts.append(s)
            words.append(merge(e))
        out = rnd.choice(["", "", " ", "  "])
        for i, p in enumerate(parts):
            if i:
                if rnd.random() < self.p_newline:
                    # words on different lines: newline plus indentation, sometimes exactly up to the column where the previous word
                    # ended (adjacency must compare lines, not only columns)
                    last_nl = out.rfind("\n")
                    col = len(out) - (last_nl + 1) + (self.col0 if last_nl < 0 else 0)
                    out += "\n" + " " * rnd.choice([col, col, 0, rnd.randint(0, 12), col + 1, max(col - 1, 0)])
                else:
                    out += rnd.choice([" ", " ", "  ", "\t", "   ", " \t "])
            out += p
        out += rnd.choice(["", "", " ", "  "])
        return out, words


def merge(pieces):
    out = []
    for p in pieces:
        if p[0] == "text" and out and out[-1][0] == "text":
            out[-1] = ("text", out[-1][1] + p[1])
        else:
            out.append(tuple(p))
    return out


def _attr_chain(node):
    parts = []
    while isinstance(node, ast.Attribute):
        parts.append(node.attr)
        node = node.value
    if isinstance(node, ast.Name):
        parts.append(node.id)
        return ".".join(reversed(parts))
    return None


def flatten(node):
    """normal form of one returned argument"""
    if isinstance(node, ast.Constant) and isinstance(node.value, str):
        return [("text", node.value)]
    if isinstance(node, ast.BinOp) and isinstance(node.op, ast.Add):
        return flatten(node.left) + flatten(node.right)
    if isinstance(node, ast.Tuple):
        out = []
        for e in node.elts:
            out += flatten(e)
        return out
    if isinstance(node, ast.Subscript) and _attr_chain(node.value) == "__xonsh__.env":
        if isinstance(node.slice, ast.Constant):
            return [("env", node.slice.value)]
        if isinstance(node.slice, ast.Call) and _attr_chain(node.slice.func) == "str" and len(node.slice.args) == 1:
            return [("envexpr", ast.dump(node.slice.args[0]))]
    if isinstance(node, ast.Starred) and isinstance(node.value, ast.Call):
        fn = _attr_chain(node.value.func)
        if fn == "__xonsh__.list_of_strs_or_callables" and len(node.value.args) == 1:
            return [("py", ast.dump(node.value.args[0]))]
        if fn == "__xonsh__.subproc_captured_inject":
            return [("inject", [merge(flatten(a)) for a in node.value.args])]
    if isinstance(node, ast.Call):
        fn = _attr_chain(node.func)
        if fn and fn.startswith("__xonsh__.subproc_") and not node.keywords:
            return [("sub", fn.split(".", 1)[1], [merge(flatten(a)) for a in node.args])]
    return [("unknown", ast.dump(node)[:120] if isinstance(node, ast.AST) else repr(node)[:120])]


def tolist(x):
    if isinstance(x, (list, tuple)):
        return [tolist(i) for i in x]
    return x


def worker_init():
    base.load_repo()


def classify(src, out):
    return None


def check_case(acc, opener, body, words, context, mode):
    closer, fn = FORMS[opener]
    form = opener + body + closer
    src = context.format(form)
    case = {"src": src, "mode": mode, "form": form, "expected": tolist(words)}
    out = base.parse(src, mode)
    if out.kind == "timeout":
        acc.inconc("case-watchdog", case)
        return
    acc.evals += 1
    acc.count("form_" + fn)
    if sum(len(w) for w in words) >= 2:
        acc.nontrivial(base.h64(src))
    if acc.evals % 1999 == 1:
        acc.sample({"src": src[:120], "expected": tolist(words)[:4]})
    if not out.accepted:
        fid = classify(src, out)
        if fid:
            acc.finding(fid, src[:80])
        else:
            acc.violation("command-line-rejected", case, {"outcome": out.brief()})
        return
    # locate the outermost subprocess call
    tree = out.value
    target = None
    for n in ast.walk(tree):
        if isinstance(n, ast.Call) and (_attr_chain(n.func) or "").startswith("__xonsh__.subproc_") and not (_attr_chain(n.func) or "").endswith("_inject"):
            target = n
            break
    if target is None:
        acc.violation("no-subprocess-call-in-tree", case, {"tree": ast.dump(tree)[:300]})
        return
    obs = flatten(target)[0]
    want = ("sub", fn, words)
    if tolist(obs) != tolist(want):
        acc.violation("args-differ-from-word-model", case, {"expected": tolist(want), "observed": tolist(obs)})


CONTEXTS = [("{}", "eval"), ("x = {}\n", "exec"), ("f({}, 2)\n", "exec"), ("for i in {}:\n    pass\n", "exec"), ("y = [{}][0].strip()\n", "exec"), ("{}\n", "exec"), ("if {}:\n    pass\n", "exec")]


def run_shard(shard):
    acc = Acc()
    if "replay" in shard:
        c = shard["replay"]
        form = c["form"]
        op = form[:2]
        ctx = c["src"].replace(form, "{}") if "{" not in c["src"].replace(form, "") else "{}"
        check_case(acc, op, form[2:-1], _retuple(c["expected"]), ctx if ctx.count("{}") == 1 else "{}", c["mode"])
        return acc.dump()
    rnd = random.Random(f"{shard['seed']}:{shard.get('idx', 0)}")
    g = Gen(rnd)
    for _ in range(shard["n"]):
        op = rnd.choice(list(FORMS))
        g.reserved = False
        ctx, mode = rnd.choice(CONTEXTS) if rnd.random() < 0.5 else CONTEXTS[1]
        g.col0 = len(ctx.split("{}")[0].rsplit("\n", 1)[-1]) + len(op)
        body, words = g.line(0, FORMS[op][0])
        if g.reserved and False:
            acc.count("skipped_reserved_word")
            continue
        check_case(acc, op, body, words, ctx, mode)
    return acc.dump()


def _retuple(x):
    if isinstance(x, list):
        if x and isinstance(x[0], str) and x[0] in ("text", "env", "envexpr", "py", "inject", "sub"):
            return tuple(_retuple(i) if isinstance(i, list) else i for i in x)
        return [_retuple(i) for i in x]
    return x


def plan(tier, seed):
    q = tier == "quick"
    return {"shards": [{"seed": seed, "idx": i, "n": 2500 if q else 8000} for i in range(16 if q else 128)]}


def finish(acc, tier, seed):
    need = 25000 if tier == "quick" else 600000
    return [f"only {acc.evals} command lines checked (< {need})"] if acc.evals < need else []
