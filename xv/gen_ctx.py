"""xonsh constructs x expression/target contexts (used by C04 and C05)."""
from __future__ import annotations

# (xonsh text, documented pure-Python translation)
def constructs(rnd=None):
    out = [
        ("$WAKKA", "__xonsh__.env['WAKKA']"),
        ("$x", "__xonsh__.env['x']"),
        # a variable may be called like a keyword
        ("$(echo @(lambda: 1))", "__xonsh__.subproc_captured('echo', *__xonsh__.list_of_strs_or_callables(lambda: 1))"),
        ("$if", "__xonsh__.env['if']"),
        ("$None", "__xonsh__.env['None']"),
        ("$(echo $class $HOME)", "__xonsh__.subproc_captured('echo', __xonsh__.env['class'], __xonsh__.env['HOME'])"),
        ("${$lambda}", "__xonsh__.env[str(__xonsh__.env['lambda'])]"),
        ("${y}", "__xonsh__.env[str(y)]"),
        ("${'a' + b}", "__xonsh__.env[str('a' + b)]"),
        ("${$Q}", "__xonsh__.env[str(__xonsh__.env['Q'])]"),
        ("$(ls -l)", "__xonsh__.subproc_captured('ls', '-l')"),
        ("$[git status]", "__xonsh__.subproc_uncaptured('git', 'status')"),
        ("!(echo hi)", "__xonsh__.subproc_captured_object('echo', 'hi')"),
        ("![make -j]", "__xonsh__.subproc_captured_hiddenobject('make', '-j')"),
        ("$(echo $HOME)", "__xonsh__.subproc_captured('echo', __xonsh__.env['HOME'])"),
        ("$(echo @(v))", "__xonsh__.subproc_captured('echo', *__xonsh__.list_of_strs_or_callables(v))"),
        ("$(cat @$(which ls))", "__xonsh__.subproc_captured('cat', *__xonsh__.subproc_captured_inject('which', 'ls'))"),
        ("$(echo $(pwd))", "__xonsh__.subproc_captured('echo', __xonsh__.subproc_captured('pwd'))"),
        ("`a.*`", "__xonsh__.pathsearch('`a.*`')"),
        ("g`*.py`", "__xonsh__.pathsearch('g`*.py`')"),
        ("r`x+`", "__xonsh__.pathsearch('r`x+`')"),
        ("@foo`bar`", "__xonsh__.pathsearch('@foo`bar`')"),
        ("p'/foo'", "__xonsh__.path_literal('/foo')"),
        ('pr"/b\\d"', "__xonsh__.path_literal(r'/b\\d')"),
        ("Rp'/c'", "__xonsh__.path_literal(R'/c')"),
        ("P'/d'", "__xonsh__.path_literal('/d')"),
        ("p'/a' 'b'", "__xonsh__.path_literal('/a' 'b')"),
        ("p'/a' r'\\b' \"c\"", "__xonsh__.path_literal('/a' r'\\b' \"c\")"),
        ("range?.index?", "__xonsh__.help(__xonsh__.help(range).index)"),
        ("a?.b??", "__xonsh__.superhelp(__xonsh__.help(a).b)"),
        ("p'/a/' pf'{n}'", "__xonsh__.path_literal('/a/' f'{n}')"),
        ("pf'/{i}' 'tail'", "__xonsh__.path_literal(f'/{i}' 'tail')"),
        ("fp'{n}/x'", "__xonsh__.path_literal(f'{n}/x')"),
        ("range?", "__xonsh__.help(range)"),
        ("int??", "__xonsh__.superhelp(int)"),
        ("(u && v)", "(u and v)"),
        ("(u || v)", "(u or v)"),
        ("(u && v || w and z)", "(u and v or w and z)"),
        # both spellings of one operator inside a single chain: one flat BoolOp, as with the keyword alone
        ("(u and v && w)", "(u and v and w)"),
        ("(u && v and w)", "(u and v and w)"),
        ("(u || v or w)", "(u or v or w)"),
        ("(u or v || w)", "(u or v or w)"),
        ("(u && v and w && z and y)", "(u and v and w and z and y)"),
        ("(u or v || w or z || y)", "(u or v or w or z or y)"),
        ("(not u && v and not w)", "(not u and v and not w)"),
        ("(u and v && w or z || y and x)", "(u and v and w or z or y and x)"),
    ]
    return out


# contexts: a Python program with one or more `{}` Load-position holes (outside assignment/augassign/annotation/del targets, not right after '@')
LOAD_CONTEXTS = [
    # f-string fields that hold a lambda besides the construct (the check for unparenthesised lambdas counts brackets of the field)
    "x = f\"\"\"{{{} or (lambda: 0)}}\"\"\"\n", "x = f\"\"\"{{[{}, (lambda: 1)()]!r:>9}}\"\"\"\n", "x = f\"\"\"{{(lambda: 0) and {}}}\"\"\"\n", "x = f\"\"\"{{{}.rtn or (lambda a=({}): a)()}}\"\"\"\n",
    "x = {}\n", "f({})\n", "f(k={})\n", "f(a, {}, *b, c={}, **d)\n", "a[{}]\n", "a[{}:{}]\n", "a[1, {}]\n", "[{} for i in y]\n", "[i for i in {}]\n", "[i for i in y if {}]\n",
    "{{k: {} for k in y}}\n", "{{ {}: 1 for k in y}}\n", "({} for i in y)\n", "f({} for i in y)\n", "x = lambda: {}\n", "x = lambda a={}: a\n", "x = {} if a else b\n", "x = a if {} else b\n",
    "x = a if b else {}\n", "x = ({}, 1)\n", "x = [{}, {}]\n", "x = {{ {}: 1}}\n", "x = {{1: {}}}\n", "x = {{ {} }}\n", "x = -{}\n", "x = not {}\n", "x = {} + 1\n", "x = 1 + {} * 2\n", "x = {}.attr\n",
    "x = {}[0]\n", "x = {}(1)\n", "x = {}.m(2)[3]\n", "def f():\n    return {}\n", "def f():\n    yield {}\n", "def f():\n    x = yield {}\n", "assert {}\n", "assert a, {}\n", "raise {}\n",
    "for i in {}:\n    pass\n", "while {}:\n    pass\n", "if {}:\n    pass\nelif {}:\n    pass\n", "with {}:\n    pass\n", "with {} as c:\n    pass\n", "with a, {} as c:\n    pass\n",
    "@dec({})\ndef f(): pass\n", "class A(B, {}):\n    pass\n", "class A(metaclass={}):\n    pass\n", "def f(a={}, *, b={}):\n    pass\n", "x: int = {}\n", "x += {}\n", "x[0] = {}\n", "x.y = {}\n",
    "match {}:\n    case 1:\n        pass\n", "match a:\n    case 1 if {}:\n        pass\n", "print({}, file={})\n", "x = (y := {})\n", "f(*{})\n", "f(**{})\n", "x = y = {}\n", "x = {} < {} < 3\n",
    "x = {} and {}\n", "x = {} or b\n", "x = [*{}, 1]\n", "x = {{**{}}}\n", "x = {} is None\n", "x = a in {}\n", "x = {} @ {}\n", "x = ({})\n", "x = (({}))\n", "x = [\n    {},\n    2,\n]\n",
    "async def f():\n    await {}\n", "async def f():\n    async for i in {}:\n        pass\n", "del a[{}]\n", "x = a[{}] = 2\n", "try:\n    pass\nexcept {}:\n    pass\n", "x = 'a' if {} else 'b'\n",
    "x = {}; y = {}\n", "if a:\n    x = {}\nelse:\n    y = {}\n", "def f(x):\n    return [{} for _ in x if {}]\n", "x = f(g({}), h(k={}))\n", "x = {} ** 2\n", "x = 2 ** {}\n", "x = ~{}\n",
    "global g\ng = {}\n", "x = f\"\"\"a{{{}}}b\"\"\"\n", "x = f\"\"\"{{{}!r:>10}}\"\"\"\n", "print(f\"\"\"{{{}}} and {{{}}}\"\"\")\n", "x = {} if {} else {}\n", "lambda: ({}, {})\n", "x = a[b][{}]\n", "x = {{'k': [{}]}}\n",
]

# binding-target contexts for $NAME / ${expr}
TARGET_CONTEXTS = [
    "{} = 1\n", "a, {} = 1, 2\n", "[{}, b] = c\n", "({}, b) = c\n", "for {} in y:\n    pass\n", "for a, {} in y:\n    pass\n", "with a as {}:\n    pass\n", "with a as ({}, b):\n    pass\n",
    "[1 for {} in y]\n", "{{k: 1 for k, {} in y}}\n", "x = {} = 1\n", "*{}, a = b\n" if False else "a, *b, {} = c\n", "({}) = 1\n", "async def f():\n    async for {} in y:\n        pass\n",
    "async def f():\n    async with a as {}:\n        pass\n", "for {} in y:\n    pass\nelse:\n    pass\n", "(x for {} in y)\n",
]
TARGET_CONTEXTS = [t for t in TARGET_CONTEXTS if t]
TARGET_CONSTRUCTS = [("$T", "__xonsh__.env['T']"), ("$in", "__xonsh__.env['in']"), ("$True", "__xonsh__.env['True']"), ("${t}", "__xonsh__.env[str(t)]"), ("${'a' + $B}", "__xonsh__.env[str('a' + __xonsh__.env['B'])]")]

# positions the property excludes for C05 (still interesting for C04 when accepted)
# the construct as the *base* of a binding-target chain (a Load position inside a for / with-as / comprehension target, which the property does
# not exclude)
# a matrix-multiplication operator written without a blank in front of the construct
MATMUL_GLUE_CONTEXTS = ["x = a@{}\n", "x = (a)@{} + 1\n", "f(b @{})\n"]
TARGET_BASE_CONTEXTS = ["for {}.a in y:\n    pass\n", "with c as {}[0]:\n    pass\n", "[0 for {}.a in y]\n", "for {}[0].b, k in y:\n    pass\n", "with c as ({}.a, d):\n    pass\n",
                        "async def f():\n    async for {}.a[1] in y:\n        pass\n"]
OTHER_TARGET_CONTEXTS = ["{} += 1\n", "{}: int = 1\n", "del {}\n", "{}.a = 1\n", "{}[0] = 1\n", "del {}[0]\n", "for {}.a in y:\n    pass\n", "{}: int\n", "x: {} = 1\n", "def f(a: {}) -> {}:\n    pass\n", "@{}\ndef f(): pass\n"]


# pattern positions of a match statement: most constructs are refused there; whatever is accepted must still be a tree compile() takes
PATTERN_CONTEXTS = ["match v:\n    case {}:\n        pass\n", "match v:\n    case {{ {}: 1}}:\n        pass\n", "match v:\n    case [1, {}, *r]:\n        pass\n", "match v:\n    case A(k={}):\n        pass\n",
                    "match v:\n    case {} | 2:\n        pass\n", "match v:\n    case ({} as w):\n        pass\n", "match v:\n    case {{'k': {}}}:\n        pass\n", "match v:\n    case A({}, 2):\n        pass\n",
                    "match {}:\n    case {}:\n        pass\n", "match v:\n    case 1 if {}:\n        pass\n", "match v:\n    case {}.attr:\n        pass\n", "match v:\n    case -{}:\n        pass\n"]


def fill(ctx, texts):
    """fill the holes of ctx left to right with texts (cycled); returns (program, list of (start_offset, text))"""
    out = []
    spans = []
    i = 0
    k = 0
    pos = 0
    while i < len(ctx):
        if ctx.startswith("{{", i):
            out.append("{")
            pos += 1
            i += 2
        elif ctx.startswith("}}", i):
            out.append("}")
            pos += 1
            i += 2
        elif ctx.startswith("{}", i):
            t = texts[k % len(texts)]
            k += 1
            spans.append((pos, t))
            out.append(t)
            pos += len(t)
            i += 2
        else:
            out.append(ctx[i])
            pos += 1
            i += 1
    return "".join(out), spans
