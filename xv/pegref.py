"""Independent PEG reference: own grammar representation, printer to .gram text, well-formedness analysis, interpreter
(ordered choice, sequence, ? * + gather, & ! lookahead, ~ cut, && forced, groups, packrat memo, left recursion by seed
growing at the leader). Written from the PEG definition; it never sees the repository's grammar classes."""
from __future__ import annotations

import dataclasses as dc
from typing import Any


@dc.dataclass(frozen=True)
class Lit:
    s: str
    soft: bool = False


@dc.dataclass(frozen=True)
class Cls:
    name: str  # NAME / NUMBER / ENDMARKER


@dc.dataclass(frozen=True)
class Ref:
    name: str


@dc.dataclass(frozen=True)
class Opt:
    item: Any


@dc.dataclass(frozen=True)
class Star:
    item: Any


@dc.dataclass(frozen=True)
class Plus:
    item: Any


@dc.dataclass(frozen=True)
class Gather:
    sep: Any
    item: Any


@dc.dataclass(frozen=True)
class PosLA:
    item: Any


@dc.dataclass(frozen=True)
class NegLA:
    item: Any


@dc.dataclass(frozen=True)
class Cut:
    pass


@dc.dataclass(frozen=True)
class Forced:
    item: Any


@dc.dataclass(frozen=True)
class Group:
    alts: tuple


@dc.dataclass(frozen=True)
class Named:
    name: str | None
    item: Any


@dc.dataclass(frozen=True)
class Alt:
    items: tuple
    action: str | None


@dc.dataclass
class Rule:
    name: str
    alts: tuple
    memo: bool = False


def p_item(it) -> str:
    t = type(it)
    if t is Lit:
        return ('"%s"' if it.soft else "'%s'") % it.s
    if t in (Cls, Ref):
        return it.name
    if t is Opt:
        return p_atom(it.item) + "?"
    if t is Star:
        return p_atom(it.item) + "*"
    if t is Plus:
        return p_atom(it.item) + "+"
    if t is Gather:
        return p_atom(it.sep) + "." + p_atom(it.item) + "+"
    if t is PosLA:
        return "&" + p_atom(it.item)
    if t is NegLA:
        return "!" + p_atom(it.item)
    if t is Cut:
        return "~"
    if t is Forced:
        return "&&" + p_atom(it.item)
    if t is Group:
        return "(" + " | ".join(p_alt(a) for a in it.alts) + ")"
    raise TypeError(it)


def p_atom(it):
    s = p_item(it)
    return s if type(it) in (Lit, Cls, Ref, Group) else "(" + s + ")"


def p_alt(a: Alt) -> str:
    s = " ".join((f"{n.name}=" if n.name else "") + p_item(n.item) for n in a.items)
    if a.action:
        s += " { " + a.action + " }"
    return s


HEADER = ["@class GenParser", "@header'''\\\nfrom __future__ import annotations\nfrom typing import Any\nfrom peg_parser.subheader import Parser, logger, memoize, memoize_left_rec\n'''", "@trailer''", ""]


def p_grammar(rules) -> str:
    out = list(HEADER)
    for r in rules:
        out.append(f"{r.name}{' (memo)' if r.memo else ''}:")
        for a in r.alts:
            out.append("    | " + p_alt(a))
    return "\n".join(out) + "\n"


class ForcedFail(Exception):
    pass


FAIL = object()


def analyse(rules):
    """(nullable map, first-graph, set of left-recursive rule names, leader per rule)"""
    rmap = {r.name: r for r in rules}
    nullable = {n: False for n in rmap}

    def item_null(it):
        t = type(it)
        if t in (Opt, Star, PosLA, NegLA, Forced, Cut):
            return True
        if t in (Plus, Gather, Lit, Cls):
            return False
        if t is Ref:
            return nullable[it.name]
        if t is Group:
            return any(alt_null(a) for a in it.alts)
        raise TypeError(it)

    def alt_null(a):
        return all(item_null(n.item) for n in a.items)

    changed = True
    while changed:
        changed = False
        for n, r in rmap.items():
            v = any(alt_null(a) for a in r.alts)
            if v and not nullable[n]:
                nullable[n] = True
                changed = True

    def first_item(it):
        t = type(it)
        if t is Ref:
            return {it.name}
        if t in (Opt, Star, Plus, PosLA, NegLA, Forced):
            return first_item(it.item)
        if t is Gather:
            return first_item(it.item)
        if t is Group:
            s = set()
            for a in it.alts:
                s |= first_alt(a)
            return s
        return set()

    def first_alt(a):
        s = set()
        for n in a.items:
            s |= first_item(n.item)
            if not item_null(n.item):
                break
        return s

    graph = {}
    for n, r in rmap.items():
        s = set()
        for a in r.alts:
            s |= first_alt(a)
        graph[n] = s

    def reach(a):
        seen = set()
        st = list(graph[a])
        while st:
            x = st.pop()
            if x in seen:
                continue
            seen.add(x)
            st += list(graph[x])
        return seen

    reachmap = {n: reach(n) for n in rmap}
    leftrec = {n for n in rmap if n in reachmap[n]}
    # strongly connected components among left-recursive rules; leader = smallest name (the generator under test picks min())
    leader = {}
    for n in leftrec:
        scc = {m for m in leftrec if m in reachmap[n] and n in reachmap[m]} | {n}
        leader[n] = min(scc)
    return nullable, graph, leftrec, leader


class Interp:
    def __init__(self, rules, tokens, keywords):
        self.rules = {r.name: r for r in rules}
        self.toks = tokens
        self.kw = keywords
        self.memo = {}
        _, _, self.leftrec, self.leader = analyse(rules)

    def parse_rule(self, name, pos):
        r = self.rules[name]
        if name in self.leftrec:
            return self.lr_rule(r, pos)
        key = (name, pos)
        if key in self.memo:
            return self.memo[key]
        res = self.alts(r.alts, pos)
        self.memo[key] = res
        return res

    def lr_rule(self, r, pos):
        key = (r.name, pos)
        if self.leader[r.name] != r.name:
            return self.alts(r.alts, pos)  # non-leader member of the cycle: evaluated afresh every time
        if key in self.memo:
            return self.memo[key]
        self.memo[key] = FAIL
        last = FAIL
        lastend = pos
        while True:
            res = self.alts(r.alts, pos)
            if res is FAIL:
                break
            _, e = res
            if e <= lastend:
                break
            last = res
            lastend = e
            self.memo[key] = res
        self.memo[key] = last
        return last

    def alts(self, alts, pos):
        for a in alts:
            res = self.alt(a, pos)
            if res == "CUTFAIL":
                return FAIL
            if res is not FAIL:
                return res
        return FAIL

    def alt(self, a, pos):
        env = {}
        vals = []
        p = pos
        cut = False
        for n in a.items:
            it = n.item
            t = type(it)
            if t is Cut:
                cut = True
                continue
            r = self.item(it, p)
            if r is FAIL:
                return "CUTFAIL" if cut else FAIL
            v, p2 = r
            if t in (PosLA, NegLA):
                continue
            p = p2
            if n.name:
                env[n.name] = v
            vals.append(v)
        if a.action is not None:
            val = eval(a.action, {}, env)  # noqa: S307 - actions are generated by this harness
        else:
            val = vals[0] if len(vals) == 1 else list(vals)
        if not val:
            return "CUTFAIL" if cut else FAIL
        return (val, p)

    def item(self, it, pos):
        t = type(it)
        if t is Lit:
            k = self.toks[pos]
            return (k, pos + 1) if k.string == it.s else FAIL
        if t is Cls:
            k = self.toks[pos]
            if it.name == "NAME":
                ok = k.type.name == "NAME" and k.string not in self.kw
            else:
                ok = k.type.name == it.name
            return (k, pos + 1) if ok else FAIL
        if t is Ref:
            return self.parse_rule(it.name, pos)
        if t is Group:
            return self.alts(it.alts, pos)
        if t is Opt:
            r = self.item(it.item, pos)
            return (None, pos) if r is FAIL else r
        if t in (Star, Plus):
            out = []
            p = pos
            while True:
                r = self.item(it.item, p)
                if r is FAIL:
                    break
                out.append(r[0])
                p = r[1]
            if t is Plus and not out:
                return FAIL
            return (out, p)
        if t is Gather:
            r = self.item(it.item, pos)
            if r is FAIL:
                return FAIL
            out = [r[0]]
            p = r[1]
            while True:
                s = self.item(it.sep, p)
                if s is FAIL:
                    break
                r = self.item(it.item, s[1])
                if r is FAIL:
                    break
                out.append(r[0])
                p = r[1]
            return (out, p)
        if t is PosLA:
            r = self.item(it.item, pos)
            return FAIL if r is FAIL else (True, pos)
        if t is NegLA:
            r = self.item(it.item, pos)
            return (True, pos) if r is FAIL else FAIL
        if t is Forced:
            r = self.item(it.item, pos)
            if r is FAIL:
                raise ForcedFail()
            return r
        raise TypeError(it)


def keywords(rules):
    """hard keywords: every alphabetic single-quoted literal of the grammar, also one that only occurs as a forced token"""
    kw = set()

    def walk(it):
        t = type(it)
        if t is Lit:
            if it.s.isalpha() and not it.soft:
                kw.add(it.s)
        elif t in (Opt, Star, Plus, PosLA, NegLA, Forced):
            walk(it.item)
        elif t is Gather:
            walk(it.sep)
            walk(it.item)
        elif t is Group:
            for a in it.alts:
                for n in a.items:
                    walk(n.item)

    for r in rules:
        for a in r.alts:
            for n in a.items:
                walk(n.item)
    return kw


def lift_groups(rules):
    """equivalent grammar in which every anonymous group is a named (non-memoised) rule: bypasses the generator's inlining"""
    new_rules = []
    counter = [0]

    def conv_item(it):
        t = type(it)
        if t is Group:
            counter[0] += 1
            name = f"g{counter[0]}"
            new_rules.append(Rule(name, tuple(conv_alt(a) for a in it.alts), False))
            return Ref(name)
        if t in (Opt, Star, Plus, PosLA, NegLA):
            return t(conv_item(it.item))
        if t is Gather:
            return Gather(conv_item(it.sep), conv_item(it.item))
        return it

    def conv_alt(a):
        return Alt(tuple(Named(n.name, conv_item(n.item)) for n in a.items), a.action)

    out = [Rule(r.name, tuple(conv_alt(a) for a in r.alts), r.memo) for r in rules]
    return out + new_rules
