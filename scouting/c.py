import ast, sys, io
sys.path.insert(0, __import__('os').environ.get('R','/repo'))
from peg_parser.parser import XonshParser
from peg_parser import tokenize as xt
def P(src, mode='exec', **kw):
    return XonshParser.parse_string(src, mode=mode, **kw)
def D(t): return ast.dump(t, include_attributes=True)
def cmp(src, mode='exec'):
    try: e = D(ast.parse(src, mode=mode))
    except SyntaxError as ex: e = 'SE:'+str(ex)
    try: o = D(P(src, mode))
    except SyntaxError as ex: o = 'SE:'+str(ex)
    except Exception as ex: o = 'EXC:'+type(ex).__name__+':'+str(ex)
    return e == o, e, o
if __name__ == '__main__':
    for s in sys.argv[1:]:
        s = s.encode().decode('unicode_escape')
        ok, e, o = cmp(s)
        print(repr(s), ok)
        if not ok:
            print('  CPY:', e[:600]); print('  XSH:', o[:600])
