from probe import *
t=parse('match x:\n  case [*_]: pass\n  case _: pass\n  case [*a]: pass\n')
for c in t.body[0].cases:
    p=c.pattern
    if isinstance(p,ast.MatchSequence): p=p.patterns[0]
    try: print(type(p).__name__, 'name=',p.name)
    except AttributeError as e: print(type(p).__name__,'AttributeError',e, vars(p).keys())
e=ast.parse('match x:\n  case [*_]: pass\n  case _: pass\n')
print(e.body[0].cases[0].pattern.patterns[0].name, e.body[0].cases[1].pattern.name, e.body[0].cases[1].pattern.pattern)
compile(t,'<x>','exec'); print('compiles')
