from probe import *
from mut import seeds
import random, collections
rnd=random.Random(int(sys.argv[1])); N=int(sys.argv[2])
S=seeds()+['$(ls -l)\n','f!(a, b)\n','with! x:\n    a\n','x = p"/a"\n','x = pf"/a{b}"\n','![echo @(x) $Y `z*` > out]\n','a?\n','b??\n','$X = ${y}\n','x = f"{a!r:>{w}}"\n','$(echo! raw)\n','f"{$HOME}"\n']
ALPH=list('()[]{}:,.=+-*/%@!?$`\'"\\#;<>&|^~ \t\n\r\f') + ['\x00','\ufeff','é','€','\x01','0','1','e','_','a','f','p','r','b','if','in','not',' and ','lambda','\\\n','"""',"'''",'${','$(','@(','!(','![','$[','@$(','??','&&','||','>&']
st=collections.Counter(); shown=collections.Counter()
for i in range(N):
    s=rnd.choice(S)
    for _ in range(rnd.randint(1,3)):
        j=rnd.randrange(len(s)+1); k=rnd.random()
        if k<0.3: s=s[:j]+s[j+1:]
        elif k<0.75: s=s[:j]+rnd.choice(ALPH)+s[j:]
        elif k<0.85: s=s[:j]
        else: s=s[:j]+rnd.choice(ALPH)+s[j+1:]
    for mode in ('exec','eval'):
        k,v=guarded(parse,s,mode,t=5)
        st[k]+=1
        if k not in ('ok','SyntaxError','IndentationError','TokenError'):
            key=k+':'+str(v)[:40]; shown[key]+=1
            if shown[key]<=2: print(k,str(v)[:80],repr(s)[:200],mode)
        elif k=='ok' and v is None: print('NONE',repr(s))
print(st); print(shown)
