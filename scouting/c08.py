import sys, os, io, collections, random
sys.path.insert(0, os.environ.get('R','/repo'))
from peg_parser import tokenize as xt
T=xt.Token
def check(src):
    """return list of violation strings"""
    lines = io.StringIO(src).readlines()  # universal newlines? StringIO newline='\n' default => no translation
    def off(pos):
        l,c=pos
        return sum(len(x) for x in lines[:l-1])+c
    toks=list(xt.generate_tokens(src))
    v=[]
    prev_end=0; prev=None
    total=len(src)
    for t in toks:
        s,e=off(t.start),off(t.end)
        if t.type in (T.DEDENT,T.ENDMARKER) or (t.type==T.NEWLINE and t.string==''):
            # zero-width / virtual
            continue
        if s<prev_end: v.append(f'overlap/order {prev!r}{prev.start}-{prev.end} then {t!r}{t.start}-{t.end}')
        if src[s:e]!=t.string: v.append(f'slice mismatch {t.type.name} {t.string!r} vs {src[s:e]!r} at {t.start}-{t.end}')
        gap=src[prev_end:s]
        if gap:
            # allowed: indentation at line start (spaces/tabs/ff), or backslash continuation
            g=gap.replace('\\\r\n','').replace('\\\n','')
            if g.strip(' \t\f')!='' : v.append(f'gap {gap!r} before {t!r}{t.start}')
            elif g and not (t.start[1]==len(g) or True): pass
        prev_end=e; prev=t
    if src[prev_end:].strip(' \t\f')!='' : v.append(f'tail {src[prev_end:]!r}')
    # structure
    if toks[-1].type!=T.ENDMARKER or sum(t.type==T.ENDMARKER for t in toks)!=1: v.append('endmarker')
    if sum(t.type==T.INDENT for t in toks)!=sum(t.type==T.DEDENT for t in toks): v.append('indent balance')
    return v
if __name__=='__main__':
    import glob
    n=0; bad=collections.Counter()
    for f in sorted(glob.glob(sys.argv[1]))[:int(sys.argv[2])]:
        src=open(f,encoding='utf-8',newline='').read()
        try: v=check(src)
        except BaseException as e: v=['EXC '+type(e).__name__+str(e)[:100]]
        n+=1
        if v: print(f, len(v), v[:3])
    print(n)
