from probe import *
import time, types
mon=sys.monitoring; TID=3
mon.use_tool_id(TID,'verif')
E=mon.events
cnt=[0,0]
def on_start(code, off): cnt[0]+=1
def on_jump(code, off, dst):
    if dst<off: cnt[1]+=1   # backward jump
mon.register_callback(TID,E.PY_START,on_start)
mon.register_callback(TID,E.JUMP,on_jump)
def codes(mod):
    out=[]
    def rec(c):
        out.append(c)
        for k in c.co_consts:
            if isinstance(k,types.CodeType): rec(k)
    for v in vars(mod).values():
        if isinstance(v,types.FunctionType): rec(v.__code__)
        elif isinstance(v,type):
            for a in vars(v).values():
                f=getattr(a,'__func__',a)
                if isinstance(f,types.FunctionType):
                    rec(f.__code__)
                    w=getattr(f,'__wrapped__',None)
                    if w: rec(w.__code__)
    return out
import peg_parser.parser as pp, peg_parser.subheader as sh, peg_parser.tokenizer as tkz
allc=set()
for m in (pp,sh,tkz,xt): allc.update(codes(m))
print(len(allc),'code objects')
src=open('/root/.pyenv/versions/3.12.1/lib/python3.12/textwrap.py').read()
t=time.time(); parse(src); t0=time.time()-t
for c in allc: mon.set_local_events(TID,c,E.PY_START|E.JUMP)
t=time.time(); parse(src); t1=time.time()-t
print('plain',round(t0,3),'monitored',round(t1,3),'calls',cnt[0],'backjumps',cnt[1], 'tokens~', len(src.split()))
for c in allc: mon.set_local_events(TID,c,E.PY_START)
cnt[:]=[0,0]; t=time.time(); parse(src); t2=time.time()-t
print('PY_START only',round(t2,3),cnt)
