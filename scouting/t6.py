from probe import *
for s in ['$HOME','${x}','$(ls -l)','$[ls -l]','!(ls -l)','![ls -l]','`a.*`','p"/foo"','pf"/foo{x}"','rp"/foo"','range?','range??','a && b','a || b','p"/a" "b"','x.y?']:
    src='z = [ '+s+' ]\n'
    k,v=guarded(parse,src)
    if k!='ok': print(repr(s),k,v); continue
    n=v.body[0].value.elts[0]
    seg=src[n.col_offset:n.end_col_offset]
    print(repr(s), type(n).__name__, (n.lineno,n.col_offset,n.end_lineno,n.end_col_offset), repr(seg), 'OK' if seg==s else 'SPAN-MISMATCH')
