import ast
MISSING = '<missing>'
def diffs(a, b, path='', out=None, limit=50):
    """yield (path, kind, a, b) differences; a=cpython, b=xonsh"""
    if out is None: out=[]
    if len(out)>=limit: return out
    if type(a) is not type(b):
        out.append((path,'type',type(a).__name__+':'+repr(a)[:60] if not isinstance(a,ast.AST) else type(a).__name__, type(b).__name__+':'+repr(b)[:60] if not isinstance(b,ast.AST) else type(b).__name__)); return out
    if isinstance(a, ast.AST):
        for f in a._fields:
            va=getattr(a,f,MISSING); vb=getattr(b,f,MISSING)
            diffs(va,vb,f'{path}/{type(a).__name__}.{f}',out,limit)
        for f in a._attributes:
            va=getattr(a,f,MISSING); vb=getattr(b,f,MISSING)
            if va!=vb: out.append((f'{path}/{type(a).__name__}@{f}','attr',va,vb))
    elif isinstance(a, list):
        if len(a)!=len(b): out.append((path,'len',len(a),len(b))); return out
        for i,(x,y) in enumerate(zip(a,b)): diffs(x,y,f'{path}[{i}]',out,limit)
    else:
        if a!=b or (isinstance(a,float) and repr(a)!=repr(b)): out.append((path,'value',repr(a)[:80],repr(b)[:80]))
    return out
def sig(d):
    import re
    p,k,a,b=d
    last=p.rsplit('/',1)[-1]
    last=re.sub(r'\[\d+\]','[]',last)
    return (last,k)
