from probe import *
import random, collections, keyword
rnd=random.Random(int(sys.argv[1]))
ALPHA='abcxyzABC019_-./=:,+%^~*<>|&;@é'
def word():
    n=rnd.randint(1,6)
    return ''.join(rnd.choice(ALPHA) for _ in range(n))
SPECIAL=['--opt=val','1e5x','a.b/c','2>&1','..','-la','file.txt','a=b','/usr/bin','~','~/x','*.py','a,b','1,2','x+y','50%','^C','a:b','>>','>','<','|','&','&&','||',';','1.5','0x1f','1_000','...','->','**','//','<<=','!=',':=','é','@','a@b','e>o','2>1','x;y','-','--','+','=','==']
def model_args(words):  # independent model: each word one arg constant
    return words
st=collections.Counter()
forms=[('$(',')','subproc_captured'),('$[',']','subproc_uncaptured'),('!(',')','subproc_captured_object'),('![',']','subproc_captured_hiddenobject')]
for i in range(int(sys.argv[2])):
    n=rnd.randint(1,4)
    ws=[]
    for _ in range(n):
        w=rnd.choice(SPECIAL) if rnd.random()<0.5 else word()
        ws.append(w)
    o,c,m=rnd.choice(forms)
    # skip words with closing brackets, keywords
    if any(keyword.iskeyword(p) for w in ws for p in __import__('re').findall(r'[A-Za-z_]\w*',w)): continue
    sep=lambda: ' '*rnd.randint(1,3)
    src=o+rnd.choice(['',' '])+ws[0]+''.join(sep()+w for w in ws[1:])+rnd.choice(['',' '])+c
    k,v=guarded(parse,src,'eval')
    if k!='ok': st['reject:'+k]+=1; 
    if k!='ok':
        if st['reject:'+k]<15: print('REJECT',repr(src),k,str(v)[:60])
        continue
    call=v.body
    ok=isinstance(call,ast.Call) and ast.unparse(call.func)=='__xonsh__.'+m
    got=[a.value if isinstance(a,ast.Constant) else ast.unparse(a) for a in call.args] if isinstance(call,ast.Call) else None
    if ok and got==ws: st['ok']+=1
    else:
        st['diff']+=1
        if st['diff']<25: print('DIFF',repr(src),ws,got)
print(st)
