from probe import *
from mut import seeds
import threading, random, collections
S=seeds()[:150]+['$(ls -l)\n','f!(a, b)\n','with! x:\n    a\n','x = p"/a"\n','x = pf"/a{b}"\n','a b\n','x = = 1\n','x = f"{a}"\n']
def sig(s):
    try: return ('ok',ast.dump(XonshParser.parse_string(s,mode='exec'),include_attributes=True))
    except SyntaxError as v: return (type(v).__name__,v.msg,v.lineno,v.offset,v.end_lineno,v.end_offset,v.text)
    except BaseException as e: return (type(e).__name__,str(e))
base={s:sig(s) for s in S}
sys.setswitchinterval(1e-6)
bad=[]
def worker(seed):
    r=random.Random(seed)
    for i in range(150):
        s=r.choice(S)
        if sig(s)!=base[s]: bad.append(s)
ths=[threading.Thread(target=worker,args=(i,)) for i in range(8)]
[t.start() for t in ths]; [t.join() for t in ths]
print('thread mismatches',len(bad), [repr(b)[:60] for b in bad[:5]])
