import sys, os, signal, ast
sys.path.insert(0, os.environ.get('R','/repo'))
from peg_parser import tokenize as xt
from peg_parser.parser import XonshParser
class TO(Exception): pass
def _al(*a): raise TO()
signal.signal(signal.SIGALRM,_al)
def guarded(fn, *a, t=3, **k):
    signal.alarm(t)
    try: return ('ok', fn(*a,**k))
    except TO: return ('TIMEOUT', None)
    except BaseException as e: return (type(e).__name__, e)
    finally: signal.alarm(0)
def toks(s): return [(t.type.name,t.string,t.start,t.end) for t in xt.generate_tokens(s)]
def parse(s, mode='exec', **k): return XonshParser.parse_string(s, mode=mode, **k)
