from probe import *
from treediff import diffs, sig
import random, glob, io, collections, tokenize as pt, token as ptk, copy, warnings, os
warnings.simplefilter('ignore')
def load_stmts(files, maxlen=600):
    pool=collections.defaultdict(list)  # category -> nodes
    srcs=[]
    for f in files:
        try: src=open(f,encoding='utf8').read(); tree=ast.parse(src)
        except Exception: continue
        for n in ast.walk(tree):
            if isinstance(n,ast.JoinedStr): break
        lines=src.splitlines(True)
        for st in tree.body:
            seg=''.join(lines[st.lineno-1:st.end_lineno])
            if len(seg)<maxlen and seg.isascii() and not any(isinstance(x,ast.JoinedStr) for x in ast.walk(st)):
                srcs.append(seg if seg.endswith('\n') else seg+'\n')
                for x in ast.walk(st):
                    if isinstance(x,ast.expr) and isinstance(getattr(x,'ctx',ast.Load()),ast.Load): pool['expr'].append(x)
                    elif isinstance(x,ast.stmt): pool['stmt'].append(x)
    return srcs,pool
def recombine(rnd, st, pool, p=0.3):
    st=copy.deepcopy(st)
    class T(ast.NodeTransformer):
        def visit(self,node):
            if isinstance(node,ast.expr) and isinstance(getattr(node,'ctx',ast.Load()),ast.Load) and not isinstance(node,(ast.Starred,)) and rnd.random()<p:
                return copy.deepcopy(rnd.choice(pool['expr']))
            return self.generic_visit(node)
    return T().visit(st)
def layout(rnd, src):
    # token-preserving relayout
    try: toks=list(pt.generate_tokens(io.StringIO(src).readline))
    except Exception: return src
    out=[]; depth=0; prev=None
    lines=src.splitlines(True)
    res=''; last=(1,0)
    def text(a,b):
        if a[0]==b[0]: return lines[a[0]-1][a[1]:b[1]]
        s=lines[a[0]-1][a[1]:]
        for l in range(a[0],b[0]-1): s+=lines[l]
        return s+lines[b[0]-1][:b[1]]
    for t in toks:
        if t.type==ptk.ENDMARKER: break
        gap=text(last,t.start) if last<=t.start and t.start[0]<=len(lines) else ''
        if t.type not in (ptk.INDENT,ptk.DEDENT,ptk.NEWLINE,ptk.NL,ptk.COMMENT) and prev and prev.type not in (ptk.NEWLINE,ptk.NL,ptk.INDENT,ptk.DEDENT,ptk.COMMENT) and '\n' not in gap and '\\' not in gap:
            r=rnd.random()
            if r<0.15: gap=gap+' '*rnd.randint(1,3)
            elif r<0.20: gap=gap+'\t'
            elif r<0.25 and depth>0: gap=gap+'\n'+' '*rnd.randint(0,6)
            elif r<0.28 and depth>0: gap=gap+' # c\n'
            elif r<0.32 and depth==0 and gap!='' : gap=gap+'\\\n'+' '*rnd.randint(0,3)
            elif r<0.34: gap=gap+'\f'
        if t.type==ptk.OP:
            if t.string in '([{': depth+=1
            elif t.string in ')]}': depth-=1
        res+=gap+t.string if t.type not in (ptk.DEDENT,) else gap
        last=t.end; prev=t
    if rnd.random()<0.2: res=res.replace('\n','\r\n')
    if rnd.random()<0.15 and res.endswith('\n'): res=res[:-1]
    return res
if __name__=='__main__':
    rnd=random.Random(int(sys.argv[1])); N=int(sys.argv[2])
    files=sorted(glob.glob('/repo/tests/data/*.py'))+sorted(glob.glob('/root/.pyenv/versions/3.12.1/lib/python3.12/*.py'))[:80]
    srcs,pool=load_stmts(files); print(len(srcs),len(pool['expr']))
    st=collections.Counter(); agg=collections.Counter(); ex={}
    for i in range(N):
        s=rnd.choice(srcs)
        try:
            tree=ast.parse(s)
            new=recombine(rnd,tree,pool)
            s2=ast.unparse(ast.fix_missing_locations(new))+'\n'
            s3=layout(rnd,s2)
            e=ast.parse(s3)
        except (SyntaxError,ValueError,RecursionError,AttributeError,TypeError,KeyError,IndexError) as x:
            st['gen-invalid']+=1; continue
        k,v=guarded(parse,s3,t=10)
        if k!='ok':
            st['REJECT:'+k]+=1
            if st['REJECT:'+k]<6: print('REJECT',k,str(v)[:100],repr(s3)[:300])
            continue
        ds=diffs(e,v,limit=20)
        if not ds: st['eq']+=1
        else:
            st['diff']+=1
            for d in ds[:1]:
                g=sig(d); agg[g]+=1
                if g not in ex: ex[g]=(s3,d)
    print(st)
    for g,n in agg.most_common(): print(n,g,repr(ex[g][0])[:300],ex[g][1])
