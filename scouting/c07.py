from probe import *
import random, collections, textwrap
rnd=random.Random(int(sys.argv[1])); N=int(sys.argv[2])
ATOMS=['x','1','"s"',"'a,b'",'"""t,"""','if','else','lambda','+','==','->','...','$X','${y}','$(ls -l)','![a b]','@(z)','`*.py`','p"/q"','f"{v}"','?','!','not','in',':','=','import os','a b','#']
def text(depth=0):
    n=rnd.randint(1,4); out=[]
    for _ in range(n):
        r=rnd.random()
        if r<0.2 and depth<3:
            o,c=rnd.choice(['()','[]','{}'])
            inner=', '.join(text(depth+1) for _ in range(rnd.randint(0,3)))
            out.append(o+inner+c)
        else:
            a=rnd.choice(ATOMS)
            if a=='#': 
                if depth>0: out.append('# c,)\n')
                else: continue
            else: out.append(a)
    return (' ' if rnd.random()<0.8 else '').join(out) or 'x'
st=collections.Counter(); shown=collections.Counter()
def consts_of_macro(tree):
    for n in ast.walk(tree):
        if isinstance(n,ast.Call) and ast.unparse(n.func)=='__xonsh__.call_macro':
            return [e.value for e in n.args[1].elts]
for i in range(N):
    args=[text() for _ in range(rnd.randint(1,3))]
    args=[(' ' if rnd.random()<0.3 else '')+a+(' ' if rnd.random()<0.3 else '') for a in args]
    src='r = f!('+','.join(args)+')\ny = 2\n'
    k,v=guarded(parse,src)
    if k!='ok':
        key='rej:'+k; st[key]+=1; shown[key]+=1
        if shown[key]<=6: print(key,str(v)[:60],repr(src)[:200])
        continue
    got=consts_of_macro(v)
    tail_ok = len(v.body)==2 and ast.unparse(v.body[1])=='y = 2'
    if got==args and tail_ok: st['ok']+=1
    else:
        st['DIFF']+=1
        if st['DIFF']<=8: print('DIFF',repr(src)[:200],'\n   exp',args,'\n   got',got,tail_ok)
# with-macro blocks
BL=['a = 1','b','if c:\n    d\nelse:\n    e','# comment','','x = (1,\n  2)','s = """q\n   r"""','ls -l | grep x','for i in j:\n\tk','echo "unbalanced (']
for i in range(N//2):
    body='\n'.join(rnd.choice(BL) for _ in range(rnd.randint(1,4)))+'\n'
    ind=rnd.choice(['    ','  ','\t'])
    block=textwrap.indent(body,ind, lambda l: True if l.strip() else False)
    src='with! ctx:\n'+block+'z = 3\n'
    k,v=guarded(parse,src)
    exp=textwrap.dedent(block)
    if k!='ok':
        key='wrej:'+k; st[key]+=1; shown[key]+=1
        if shown[key]<=6: print(key,str(v)[:60],repr(src)[:200])
        continue
    w=v.body[0]; got=w.items[0].context_expr.args[1].value if isinstance(w,ast.With) else None
    tail_ok=len(v.body)==2 and ast.unparse(v.body[1])=='z = 3'
    if got==exp and tail_ok: st['wok']+=1
    else:
        st['WDIFF']+=1
        if st['WDIFF']<=8: print('WDIFF',repr(src)[:200],'\n   exp',repr(exp),'\n   got',repr(got),tail_ok)
print(st)
