from probe import *
from c08 import check
from mut import seeds
import random, collections
rnd=random.Random(int(sys.argv[1])); N=int(sys.argv[2])
S=seeds()+['$(ls -l)\n','f!(a, b)\n','with! x:\n    a\n','x = p"/a"\n','x = pf"/a{b}"\n','![echo @(x) $Y `z*` > out]\n','a?\n','$X = ${y}\n','x = f"{a!r:>{w}}"\n','x = f"""a\n{b}\n  c"""\n','x = """a\n  b\\\n c"""\n','if a:\n\tb\n\tif c:\n\t\td\n  \n\te\n']
ALPH=list('()[]{}:,.=+-*/%@!?$`\'"\\#;<>&|^~ \t\n\f') + ['\r\n','é','€','\x01','0','1','e','_','a','f','r','b','if',' in ','\\\n','"""',"'''",'${','$(','@(','!(','??','&&','||','>&']
st=collections.Counter(); shown=collections.Counter()
for i in range(N):
    s=rnd.choice(S)
    for _ in range(rnd.randint(0,3)):
        j=rnd.randrange(len(s)+1); k=rnd.random()
        if k<0.3: s=s[:j]+s[j+1:]
        elif k<0.8: s=s[:j]+rnd.choice(ALPH)+s[j:]
        else: s=s[:j]
    if rnd.random()<0.15: s=s.replace('\n','\r\n')
    k,v=guarded(check,s,t=5)
    if k=='ok' and not v: st['tiles']+=1
    elif k=='ok':
        key=v[0].split()[0]; st['BAD:'+key]+=1; shown[key]+=1
        if shown[key]<=6: print('BAD',v[:2],repr(s)[:160])
    else: st[k]+=1
print(st)
