from probe import *
import collections
def strip_pos(t): return ast.dump(t)
CONS=[('$HOME',"__xonsh__.env['HOME']"),('${x}',"__xonsh__.env[str(x)]"),('$(ls -l)',"__xonsh__.subproc_captured('ls', '-l')"),('$[ls -l]',"__xonsh__.subproc_uncaptured('ls', '-l')"),('!(ls -l)',"__xonsh__.subproc_captured_object('ls', '-l')"),('![ls -l]',"__xonsh__.subproc_captured_hiddenobject('ls', '-l')"),('`a.*`',"__xonsh__.pathsearch('`a.*`')"),('g`*.py`',"__xonsh__.pathsearch('g`*.py`')"),('p"/foo"',"__xonsh__.path_literal('/foo')"),('pf"/foo{x}"',"__xonsh__.path_literal(f'/foo{x}')"),('range?',"__xonsh__.help(range)"),('range??',"__xonsh__.superhelp(range)"),('a && b','a and b'),('a || b','a or b')]
CTX=['{}','x = {}','f({})','f(a, {}, k={})','[{}]','({},)','{{{}: 1}}','{{1: {}}}','{{{}}}','x[{}]','x[{}:{}]','({})','({}).y','({})[0]','({})(1)','[y for y in {}]','[{} for y in z]','[y for y in z if {}]','lambda: {}','lambda a={}: a','def g(a={}):\n    return {}','if {}:\n    pass','while {}:\n    break','for i in {}:\n    pass','with {} as w:\n    pass','assert {}, {}','return {}','x = {} if {} else {}','x = not {}','x = -{}','x = {} + {}','x = {} < {}','x = {} and {}','x = [*{}]','x = {{**{}}}','f(*{})','f(**{})','print({}, "a" "b")','x = yield {}','x = await {}','raise E({})','del x[{}]','x[{}] = 1','x: int = {}','x += {}','(y := {})','@dec({})\ndef g(): pass','class C(B, m={}): pass','try:\n    pass\nexcept E:\n    {}','match {}:\n    case 1: pass','x = ({}\n)','x = {}  # c','$(echo @({}))','{} ; {}', 'global x; x = {}', 'import os; {}']
st=collections.Counter()
for cx,tr in CONS:
    for ctx in CTX:
        n=ctx.count('{}')
        a=ctx.format(*([cx]*n))+'\n'; b=ctx.format(*([tr]*n))+'\n'
        try: eb=ast.parse(b)
        except SyntaxError as e: st['ctx-invalid']+=1; continue
        k,v=guarded(parse,a)
        if k!='ok':
            st['reject']+=1; print('REJECT',repr(a),k,str(v)[:80]); continue
        if strip_pos(v)!=strip_pos(eb):
            st['diff']+=1; print('DIFF',repr(a)); 
            print('   ',ast.unparse(v)); continue
        try: compile(v,'<v>','exec'); st['ok']+=1
        except SyntaxError as e: st['ok-semantic']+=1
        except Exception as e: st['compile-bad']+=1; print('COMPILE',repr(a),type(e).__name__,e)
print(st)
