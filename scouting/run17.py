import sys, os, io, random, itertools, tempfile, traceback, collections, signal
sys.path.insert(0, os.environ.get('R','/repo'))
sys.path.insert(0, __import__('os').path.dirname(__file__))
from pegref import *
from peg_parser.tokenize import Token, TokenInfo
from peg_parser.tokenizer import Tokenizer
from pegen.build import build_parser
from tasks.generator import XonshParserGenerator

SYMS={'a':(Token.NAME,'a'),'b':(Token.NAME,'b'),'x':(Token.NAME,'x'),'1':(Token.NUMBER,'1'),'+':(Token.OP,'+')}
def mk_tokens(word):
    out=[]; col=0
    for ch in word:
        ty,s=SYMS[ch]; out.append(TokenInfo(ty,s,(1,col),(1,col+1),' '.join(word)+'\n')); col+=2
    out.append(TokenInfo(Token.ENDMARKER,'',(2,0),(2,0),''))
    return out

class G:
    def __init__(self,rnd,nrules): self.rnd=rnd; self.n=nrules; self.nullable={}; self.rules=[]
    def leaf(self):
        r=self.rnd.random()
        if r<0.5: return Lit(self.rnd.choice('ab+'))
        if r<0.6: return Lit(self.rnd.choice('ab'),soft=True)
        if r<0.8: return Cls('NAME')
        return Cls('NUMBER')
    def nonnull_atom(self,i,depth):
        r=self.rnd.random()
        later=[j for j in range(i+1,self.n) if not self.nullable[j]]
        if r<0.55 or depth>=1: return self.leaf()
        if r<0.75 and later: return Ref(f'r{self.rnd.choice(later)}')
        # group starting with a leaf
        return Group(tuple(self.alt(i,depth+1,in_group=True) for _ in range(self.rnd.randint(1,2))))
    def item(self,i,depth,first,consumed):
        """returns (item, nullable, consuming)"""
        rnd=self.rnd; r=rnd.random()
        if r<0.40:
            a=self.nonnull_atom(i,depth); return a,False,True
        if r<0.50:
            return Opt(self.nonnull_atom(i,depth)),True,False
        if r<0.58: return Star(self.nonnull_atom(i,depth)),True,False
        if r<0.66: return Plus(self.nonnull_atom(i,depth)),False,True
        if r<0.72: return Gather(Lit(rnd.choice('+b')),self.nonnull_atom(i,depth)),False,True
        if r<0.78: return PosLA(self.nonnull_atom(i,depth)),True,False
        if r<0.84: return NegLA(self.nonnull_atom(i,depth)),True,False
        if r<0.88 and not first: return Cut(),True,False
        if r<0.92 and not first: return Forced(Lit('+')),True,True   # nullable per pegen analysis
        if consumed:  # back reference allowed after consumption
            return Ref(f'r{rnd.randint(0,i)}'),False,True   # treat as non-nullable only if target non-null; conservative below
        a=self.nonnull_atom(i,depth); return a,False,True
    def alt(self,i,depth,in_group=False,leftrec=False):
        rnd=self.rnd; items=[]; consumed=False; names=iter('abcdefgh'); used=[]
        if leftrec:
            nm=next(names); items.append(Named(nm,Ref(f'r{i}'))); used.append(nm)
            a=self.leaf(); items.append(Named(None,a)); consumed=True
        k=rnd.randint(1,3)
        for idx in range(k):
            first=(idx==0 and not leftrec)
            if first or (in_group and idx==0):
                it,null,cons=self.nonnull_atom(i,depth),False,True   # every alt starts with a consuming non-nullable item
            else:
                it,null,cons=self.item(i,depth,first,consumed)
            if isinstance(it,Ref) and not leftrec and int(it.name[1:])<=i and not consumed: it=self.leaf()
            nm=None
            if type(it) not in (PosLA,NegLA,Cut,Forced) and rnd.random()<0.8: nm=next(names); used.append(nm)
            items.append(Named(nm,it)); consumed=consumed or cons
        tag=f"A{next(self.counter)}"
        if len(items)==1 and not leftrec and rnd.random()<0.3 and type(items[0].item) in (Lit,Cls,Ref,Plus,Gather,Group):
            return Alt((Named(None,items[0].item),),None)
        return Alt(tuple(items),"('%s', %s)"%(tag,', '.join(used)) if used else "('%s',)"%tag)
    def build(self):
        self.counter=itertools.count()
        rules=[None]*self.n
        for i in reversed(range(self.n)):
            self.nullable[i]=False    # every alt starts with non-nullable consuming item
            alts=[self.alt(i,0) for _ in range(self.rnd.randint(1,3))]
            if self.rnd.random()<0.35:
                alts.insert(self.rnd.randrange(len(alts)+1) if self.rnd.random()<0.3 else 0, self.alt(i,0,leftrec=True))
                # ensure a non-LR alt exists (already)
            rules[i]=Rule(f'r{i}',tuple(alts),memo=self.rnd.random()<0.4)
        start=Rule('start',(Alt((Named('a',Ref('r0')),Named(None,Cls('ENDMARKER'))),"('S', a)"),))
        return [start]+rules

def keywords(rules):
    kw=set()
    def walk(it):
        t=type(it)
        if t is Lit:
            if it.s.isalpha() and not it.soft: kw.add(it.s)
        elif t in (Opt,Star,Plus,PosLA,NegLA): walk(it.item)
        elif t is Forced: pass
        elif t is Gather: walk(it.sep); walk(it.item)
        elif t is Group:
            for a in it.alts:
                for n in a.items: walk(n.item)
    for r in rules:
        for a in r.alts:
            for n in a.items: walk(n.item)
    return kw

def gen_parser(text):
    with tempfile.TemporaryDirectory() as d:
        gf=os.path.join(d,'g.gram'); open(gf,'w').write(text)
        grammar,_,_=build_parser(gf)
        out=io.StringIO()
        gen=XonshParserGenerator(grammar,out); gen.generate(gf)
    ns={}
    exec(compile(out.getvalue(),'<gen>','exec'),ns)
    return ns['GenParser'], out.getvalue()

class TO(Exception): pass
def _al(*a): raise TO()
signal.signal(signal.SIGALRM,_al)
def run_gen(cls,toks):
    tk=Tokenizer(iter(toks)); p=cls(tk)
    signal.alarm(5)
    try:
        v=p.start(); return ('ok',v,tk.mark()) if v is not None else ('fail',)
    except SyntaxError as e: return ('forced',)
    except TO: return ('TIMEOUT',)
    except BaseException as e: return ('EXC',type(e).__name__,str(e)[:80])
    finally: signal.alarm(0)
def run_ref(rules,toks,kw):
    it=Interp(rules,toks,kw)
    it.pegen_leaders=it.leftrec
    try:
        r=it.parse_rule('start',0)
        return ('fail',) if r is FAIL else ('ok',r[0],r[1])
    except ForcedFail: return ('forced',)
    except RecursionError: return ('REF-RECURSION',)

if __name__=='__main__':
    seed=int(sys.argv[1]); NG=int(sys.argv[2]); L=int(sys.argv[3])
    rnd=random.Random(seed); st=collections.Counter()
    words=[''.join(w) for l in range(L+1) for w in itertools.product('abx1+',repeat=l)]
    for gi in range(NG):
        g=G(rnd,rnd.randint(2,4)); rules=g.build(); text=p_grammar(rules)
        try: cls,code=gen_parser(text)
        except BaseException as e:
            st['GEN-FAIL']+=1; print('GEN FAIL',type(e).__name__,str(e)[:100]); print(text); continue
        kw=keywords(rules); ndiff=0
        for w in words:
            toks=mk_tokens(w)
            a=run_gen(cls,toks); b=run_ref(rules,toks,kw)
            st[a[0]]+=1
            if a!=b:
                ndiff+=1
                if ndiff<=2 and st['DIFFG']<6:
                    print('DIFF word',repr(w),'gen',a,'ref',b); 
        if ndiff:
            st['DIFFG']+=1
            if st['DIFFG']<=6: print(text); print('----')
    print(st)
