from probe import *
import io, tokenize as pt, token as ptk, collections, glob, os
SKIP_X={'WS','COMMENT','NL'}
SKIP_P={ptk.COMMENT, ptk.NL}
def norm_x(s):
    out=[]
    for t in xt.generate_tokens(s):
        if t.type.name in SKIP_X: continue
        out.append((t.type.name,t.string,t.start,t.end))
    return out
def norm_p(s):
    out=[]
    for t in pt.generate_tokens(io.StringIO(s).readline):
        if t.type in SKIP_P: continue
        out.append((ptk.tok_name[t.type],t.string,t.start,t.end))
    return out
def cmp_tokens(s):
    try: p=norm_p(s)
    except Exception as e: return None
    k,x=guarded(norm_x,s,t=10)
    if k!='ok': return ('exc',k,str(x)[:80])
    for i,(a,b) in enumerate(zip(p,x)):
        if a!=b: return ('diff',i,a,b)
    if len(p)!=len(x): return ('len',len(p),len(x), p[len(x):len(x)+1] if len(p)>len(x) else x[len(p):len(p)+1])
    return 'eq'
if __name__=='__main__':
    root=sys.argv[1]; n=int(sys.argv[2])
    files=sorted(os.path.join(dp,f) for dp,dn,fn in os.walk(root) for f in fn if f.endswith('.py'))
    import random; random.Random(1).shuffle(files)
    st=collections.Counter()
    for f in files[:n]:
        try: s=open(f,encoding='utf8',newline='').read()
        except Exception: continue
        if len(s)>60000: continue
        r=cmp_tokens(s)
        st[r if isinstance(r,str) or r is None else r[0]]+=1
        if r!='eq' and r is not None: print(f, repr(r)[:300])
    print(st)
