"""Independent PEG reference interpreter + grammar representation (prototype)."""
from __future__ import annotations
import dataclasses as dc, random, itertools
from typing import Any

# ---- grammar representation -------------------------------------------------
@dc.dataclass(frozen=True)
class Lit: s: str; soft: bool=False          # 'a' or "a"
@dc.dataclass(frozen=True)
class Cls: name: str                          # NAME / NUMBER / ENDMARKER
@dc.dataclass(frozen=True)
class Ref: name: str
@dc.dataclass(frozen=True)
class Opt: item: Any
@dc.dataclass(frozen=True)
class Star: item: Any
@dc.dataclass(frozen=True)
class Plus: item: Any
@dc.dataclass(frozen=True)
class Gather: sep: Any; item: Any
@dc.dataclass(frozen=True)
class PosLA: item: Any
@dc.dataclass(frozen=True)
class NegLA: item: Any
@dc.dataclass(frozen=True)
class Cut: pass
@dc.dataclass(frozen=True)
class Forced: item: Any                       # Lit only
@dc.dataclass(frozen=True)
class Group: alts: tuple                      # tuple[Alt]
@dc.dataclass(frozen=True)
class Named: name: str|None; item: Any
@dc.dataclass(frozen=True)
class Alt: items: tuple; action: str|None     # items: tuple[Named]
@dc.dataclass
class Rule: name: str; alts: tuple; memo: bool=False

def p_item(it)->str:
    t=type(it)
    if t is Lit: return ('"%s"' if it.soft else "'%s'")%it.s
    if t is Cls: return it.name
    if t is Ref: return it.name
    if t is Opt: return p_atom(it.item)+'?'
    if t is Star: return p_atom(it.item)+'*'
    if t is Plus: return p_atom(it.item)+'+'
    if t is Gather: return p_atom(it.sep)+'.'+p_atom(it.item)+'+'
    if t is PosLA: return '&'+p_atom(it.item)
    if t is NegLA: return '!'+p_atom(it.item)
    if t is Cut: return '~'
    if t is Forced: return '&&'+p_atom(it.item)
    if t is Group: return '('+' | '.join(p_alt(a) for a in it.alts)+')'
    raise TypeError(it)
def p_atom(it):
    s=p_item(it)
    return s if type(it) in (Lit,Cls,Ref,Group) else '('+s+')'
def p_alt(a:Alt)->str:
    s=' '.join((f'{n.name}=' if n.name else '')+p_item(n.item) for n in a.items)
    if a.action: s+=' { '+a.action+' }'
    return s
def p_grammar(rules)->str:
    out=["@class GenParser","@header'''\\\nfrom __future__ import annotations\nfrom typing import Any\nfrom peg_parser.subheader import Parser, logger, memoize, memoize_left_rec\n'''","@trailer''",""]
    for r in rules:
        out.append(f"{r.name}{' (memo)' if r.memo else ''}:")
        for a in r.alts: out.append('    | '+p_alt(a))
    return '\n'.join(out)+'\n'

# ---- reference semantics ------------------------------------------------------
class ForcedFail(Exception): pass
FAIL=object()
class Interp:
    def __init__(self, rules, tokens, keywords):
        self.rules={r.name:r for r in rules}; self.toks=tokens; self.kw=keywords
        self.memo={}; self.lr_leaders=self._leaders()
    # nullable / first graph for left-recursion leaders (own analysis)
    def _leaders(self):
        rules=self.rules
        nullable={n:False for n in rules}
        def item_null(it):
            t=type(it)
            if t in (Opt,Star,PosLA,NegLA,Forced): return True
            if t in (Plus,Gather,Cut,Lit,Cls): return False
            if t is Ref: return nullable[it.name]
            if t is Group: return any(alt_null(a) for a in it.alts)
        def alt_null(a): return all(item_null(n.item) for n in a.items)
        ch=True
        while ch:
            ch=False
            for n,r in rules.items():
                v=any(alt_null(a) for a in r.alts)
                if v and not nullable[n]: nullable[n]=True; ch=True
        def first_item(it):
            t=type(it)
            if t is Ref: return {it.name}
            if t in (Opt,Star,Plus): return first_item(it.item)
            if t is Gather: return first_item(it.item)
            if t is Group: return set().union(*[first_alt(a) for a in it.alts]) if it.alts else set()
            return set()
        def first_alt(a):
            s=set()
            for n in a.items:
                s|=first_item(n.item)
                if not item_null(n.item): break
            return s
        graph={n:set().union(*[first_alt(a) for a in r.alts]) for n,r in rules.items()}
        self.graph=graph; self.nullable=nullable
        # rules on a cycle
        def reach(a):
            seen=set(); st=list(graph[a])
            while st:
                x=st.pop()
                if x in seen: continue
                seen.add(x); st+=list(graph[x])
            return seen
        self.leftrec={n for n in rules if n in reach(n)}
        return self.leftrec
    def tok(self,pos): return self.toks[pos]
    def parse_rule(self,name,pos):
        r=self.rules[name]
        if name in self.leftrec:
            return self.lr_rule(r,pos)
        key=(name,pos)
        if key in self.memo: return self.memo[key]
        res=self.alts(r.alts,pos)
        self.memo[key]=res
        return res
    def lr_rule(self,r,pos):
        # seed growing; every left-recursive rule acts as its own growing point when first entered
        key=(r.name,pos)
        if key in self.memo: return self.memo[key]
        # Only the *leader* grows. Leader choice = pegen's: min name among candidates in all cycles.
        if r.name not in self.pegen_leaders:
            return self.alts(r.alts,pos)      # non-leader members: unmemoized
        self.memo[key]=FAIL
        last=FAIL; lastend=pos
        while True:
            res=self.alts(r.alts,pos)
            if res is FAIL: break
            v,e=res
            if e<=lastend: break
            last=res; lastend=e; self.memo[key]=res
        self.memo[key]=last
        return last
    def alts(self,alts,pos):
        for a in alts:
            res=self.alt(a,pos)
            if res=='CUTFAIL': return FAIL
            if res is not FAIL: return res
        return FAIL
    def alt(self,a,pos):
        env={}; vals=[]; p=pos; cut=False
        for n in a.items:
            it=n.item; t=type(it)
            if t is Cut: cut=True; continue
            r=self.item(it,p)
            if r is FAIL: return 'CUTFAIL' if cut else FAIL
            v,p2=r
            if t in (PosLA,NegLA):
                continue
            p=p2
            if n.name: env[n.name]=v
            vals.append(v)
        if a.action is not None:
            val=eval(a.action,{},env)
        else:
            val=vals[0] if len(vals)==1 else list(vals)
        if not val: return 'CUTFAIL' if cut else FAIL     # pegen convention (falsy = fail); generator avoids it
        return (val,p)
    def item(self,it,pos):
        t=type(it)
        if t is Lit:
            k=self.tok(pos)
            return (k,pos+1) if k.string==it.s else FAIL
        if t is Cls:
            k=self.tok(pos)
            if it.name=='NAME': ok=k.type.name=='NAME' and k.string not in self.kw
            else: ok=k.type.name==it.name
            return (k,pos+1) if ok else FAIL
        if t is Ref: return self.parse_rule(it.name,pos)
        if t is Group: return self.alts(it.alts,pos)
        if t is Opt:
            r=self.item(it.item,pos)
            return (None,pos) if r is FAIL else r
        if t in (Star,Plus):
            out=[]; p=pos
            while True:
                r=self.item(it.item,p)
                if r is FAIL: break
                out.append(r[0]); p=r[1]
            if t is Plus and not out: return FAIL
            return (out,p)
        if t is Gather:
            r=self.item(it.item,pos)
            if r is FAIL: return FAIL
            out=[r[0]]; p=r[1]
            while True:
                s=self.item(it.sep,p)
                if s is FAIL: break
                r=self.item(it.item,s[1])
                if r is FAIL: break
                out.append(r[0]); p=r[1]
            return (out,p)
        if t is PosLA:
            r=self.item(it.item,pos); return FAIL if r is FAIL else (True,pos)
        if t is NegLA:
            r=self.item(it.item,pos); return (True,pos) if r is FAIL else FAIL
        if t is Forced:
            r=self.item(it.item,pos)
            if r is FAIL: raise ForcedFail()
            return r
        raise TypeError(it)
