from probe import *
for s in ["st = 's\ntring'\n", "x = 'abc\ny = 1\n", "x = 'abc\ny = 'd'\n", 'x = p"/a\\"\n']:
    print(repr(s), guarded(toks,s)); k,v=guarded(parse,s); print('   parse',k, ast.unparse(v) if k=='ok' else v)
    try: ast.parse(s); print('   cpython ok')
    except SyntaxError as e: print('   cpython',e)
