from probe import *
import collections, itertools
def validate(tree, src):
    pr=[]
    lines=src.splitlines(True); n=len(lines)
    for node in ast.walk(tree):
        if isinstance(node,(ast.stmt,ast.expr,ast.arg,ast.keyword,ast.alias,ast.excepthandler,ast.pattern,ast.type_param)):
            a=[getattr(node,k,None) for k in ('lineno','col_offset','end_lineno','end_col_offset')]
            if any(not isinstance(x,int) for x in a): pr.append(f'{type(node).__name__} pos {a}'); continue
            if (a[0],a[1])>(a[2],a[3]): pr.append(f'{type(node).__name__} start>end {a}')
            if not (1<=a[0]<=n and 1<=a[2]<=n): pr.append(f'{type(node).__name__} line out {a}')
            elif a[1]>len(lines[a[0]-1]) or a[3]>len(lines[a[2]-1]): pr.append(f'{type(node).__name__} col out {a}')
    return pr
T=['$X','${x}','${"a" + b}']
TCTX=['{} = 1','{}, y = 1, 2','({}) = 1','[{}, y] = z','*{}, y = z','for {} in z: pass','for {}, y in z: pass','with a as {}: pass','with a as ({}, y): pass','[i for {} in z]','[i for {}, j in z]','{} += 1','{}: int = 1','({}): int = 1','del {}','del ({}, y)','x = y = {} = 1','{} = {} = 2','async def f():\n    async for {} in z: pass','async def f():\n    async with a as {}: pass','({} := 1)','import a as {}','def f({}): pass','lambda {}: 1','try:\n    pass\nexcept E as {}:\n    pass','match a:\n    case {}: pass','global {}','{}.attr = 1','{}[0] = 1','for {}.a in z: pass','x[{}] = 1','x = [{} for i in z]']
st=collections.Counter()
for t in T:
    for c in TCTX:
        s=c.format(*([t]*c.count('{}')))+'\n'
        k,v=guarded(parse,s)
        if k!='ok': st['rej:'+k]+=1; print('REJ',k,repr(s)); continue
        pr=validate(v,s)
        try: compile(v,'<v>','exec'); cv='ok'
        except SyntaxError as e:
            try: compile(ast.unparse(v),'<u>','exec'); cv='SEMANTIC-MISMATCH:'+str(e)
            except SyntaxError: cv='sem'
            except Exception as e2: cv='unparse:'+type(e2).__name__
        except Exception as e: cv='MALFORMED:'+type(e).__name__+':'+str(e)
        st[cv.split(':')[0]]+=1
        if pr or cv not in ('ok','sem'): print(repr(s),cv,pr[:2], '|', ast.unparse(v)[:80] if cv!='MALFORMED' else '')
print(st)
