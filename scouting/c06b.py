from probe import *
import random, collections, keyword, re
rnd=random.Random(int(sys.argv[1])); N=int(sys.argv[2])
ALPHA='abcxyzABC019_-./=:,+%^~*<>|&;@é'
def wordtext():
    for _ in range(20):
        w=''.join(rnd.choice(ALPHA) for _ in range(rnd.randint(1,5)))
        if not any(keyword.iskeyword(p) for p in re.findall(r'[^\W\d]\w*',w)) and '@(' not in w and not w.endswith('@'): return w
    return 'w'
FORMS={'$(':(')','subproc_captured'),'$[':(']','subproc_uncaptured'),'!(':(')','subproc_captured_object'),'![':(']','subproc_captured_hiddenobject')}
def gen_cmd(depth):
    """returns (text, model) ; model = list of words; word = list of pieces"""
    words=[]; texts=[]
    for _ in range(rnd.randint(1,4)):
        pieces=[]; t=''
        for _ in range(rnd.choice([1,1,1,2,2,3])):
            r=rnd.random()
            if r<0.5: s=wordtext(); pieces.append(('text',s)); t+=s
            elif r<0.62:
                q=rnd.choice(['"',"'"]); pre=rnd.choice(['','r','b','u','R']); body=rnd.choice(['a b','x','','a,b','$no','(']); s=pre+q+body+q
                if t and (t[-1].isalnum() or t[-1]=='_') : continue   # avoid accidental prefix merge like ab"..."
                pieces.append(('text',s)); t+=s
            elif r<0.74:
                if t and t[-1]=='$': continue
                nm=rnd.choice(['HOME','X','path_1']); 
                pieces.append(('env',nm)); t+='$'+nm
                # following text must not extend the name
                nxt=rnd.choice(['/bin','.x','-y','']); 
                if nxt: pieces.append(('text',nxt)); t+=nxt
            elif r<0.82: pieces.append(('envexpr','v')); t+='${v}'
            elif r<0.90:
                if t.endswith('@'): continue
                pieces.append(('py','e')); t+='@(e)'
            elif r<0.95 and depth<2:
                st,m=gen_cmd(depth+1); pieces.append(('inject',m)); t+='@$('+st+')'
            elif depth<2:
                o=rnd.choice(list(FORMS)); c,meth=FORMS[o]; st,m=gen_cmd(depth+1); pieces.append(('sub',meth,m)); t+=o+st+c
        if not pieces: pieces=[('text','w')]; t='w'
        # merge adjacent text
        merged=[]
        for p in pieces:
            if merged and merged[-1][0]=='text' and p[0]=='text': merged[-1]=('text',merged[-1][1]+p[1])
            else: merged.append(p)
        words.append(merged); texts.append(t)
    text=texts[0]+''.join(' '*rnd.randint(1,2)+x for x in texts[1:])
    return text,words
def nf_args(args):
    return [nf_word(a) for a in args]
def is_xcall(n,name): return isinstance(n,ast.Call) and ast.unparse(n.func)=='__xonsh__.'+name
def nf_word(n):
    out=[]
    def emit(p):
        if out and out[-1][0]=='text' and p[0]=='text': out[-1]=('text',out[-1][1]+p[1])
        else: out.append(p)
    def rec(n):
        if isinstance(n,ast.Constant) and isinstance(n.value,str): emit(('text',n.value))
        elif isinstance(n,ast.BinOp) and isinstance(n.op,ast.Add): rec(n.left); rec(n.right)
        elif isinstance(n,ast.Tuple):
            for e in n.elts: rec(e)
        elif isinstance(n,ast.Subscript) and ast.unparse(n.value)=='__xonsh__.env':
            if isinstance(n.slice,ast.Constant): emit(('env',n.slice.value))
            else: emit(('envexpr',ast.unparse(n.slice.args[0])))
        elif isinstance(n,ast.Starred) and is_xcall(n.value,'list_of_strs_or_callables'): emit(('py',ast.unparse(n.value.args[0])))
        elif isinstance(n,ast.Starred) and is_xcall(n.value,'subproc_captured_inject'): emit(('inject',nf_args(n.value.args)))
        elif isinstance(n,ast.Call) and ast.unparse(n.func).startswith('__xonsh__.subproc_'): emit(('sub',n.func.attr,nf_args(n.args)))
        else: emit(('OTHER',ast.dump(n)[:80]))
    rec(n); return out
st=collections.Counter()
for i in range(N):
    o=rnd.choice(list(FORMS)); c,meth=FORMS[o]
    t,model=gen_cmd(0)
    src=o+rnd.choice(['',' '])+t+rnd.choice(['',' '])+c
    k,v=guarded(parse,src,'eval')
    if k!='ok':
        st['rej:'+k]+=1
        if st['rej:'+k]<=8: print('REJ',k,str(v)[:60],repr(src))
        continue
    call=v.body
    got=nf_args(call.args) if isinstance(call,ast.Call) and ast.unparse(call.func)=='__xonsh__.'+meth else None
    if got==model: st['ok']+=1
    else:
        st['DIFF']+=1
        if st['DIFF']<=10: print('DIFF',repr(src),'\n  exp',model,'\n  got',got)
print(st)
