from probe import *
from c09 import cmp_tokens
from c08 import check as tile
import itertools, collections, warnings
warnings.simplefilter('ignore')
nums=[]
ints=['0','00','0_0','1','10','1_000','0x1f','0XFF','0x_1','0o17','0O7','0b101','0B1_0','123456789012345678901234567890']
floats=['1.','.5','1.5','1e5','1E-5','1e+5','1.5e10','1_0.0_1','1.e3','.5e-3','0.0','00.5','1_0e1_0']
imag=[x+'j' for x in ['1','1.','.5','1e5','0','1_0']]+['1J']
nums=ints+floats+imag
after=['','.real','.x',' .x','if x else y',' or 2','+1','-1','j','e','_','x','..','...','.. x','[0]','(1)',':2',';','is 1']
st=collections.Counter()
def both(s):
    r=cmp_tokens(s)
    if r is None: st['cpy-tok-reject']+=1; return
    # require CPython parser to accept too? fragments: only tokenizer level
    try: ast.parse(s); valid=True
    except SyntaxError: valid=False
    if r!='eq':
        st[('DIFF',valid)]+=1
        if st[('DIFF',valid)]<=12: print('TOKDIFF valid=%s'%valid,repr(s),repr(r)[:200])
    else: st['eq']+=1
    k,v=guarded(tile,s)
    if k!='ok' or v: 
        st['TILE']+=1
        if st['TILE']<10: print('TILE',repr(s),k,v)
for n in nums:
    for a in after:
        both(f'x = {n}{a}\n')
prefixes=sorted({''.join(p) for base in ['','b','r','u','br','rb'] for p in itertools.product(*[(c,c.upper()) for c in base])})
quotes=["'",'"',"'''",'"""']
contents=['','a','a b','\\n','\\\\','\\x41','\\u00e9','\\N{BULLET}','é','\\\'','\\"','it"s' ,"it's",'{}','{x}','#','\\\n','$x','`a`','?','!']
for p in prefixes:
    for q in quotes:
        for c in contents:
            if q[0] in c and '\\' not in c and len(q)==1: continue
            if 'b' in p.lower() and not c.isascii(): continue
            both(f'x = {p}{q}{c}{q}\n'); both(f'f({p}{q}{c}{q}, {p}{q}{c}{q})\n')
ops=['+','-','*','**','/','//','%','@','<<','>>','&','|','^','~','<','>','<=','>=','==','!=','->','+=','-=','*=','/=','//=','%=','@=','&=','|=','^=','>>=','<<=','**=',':=','.','...',',',':',';','=','(',')','[',']','{','}']
for a in ops:
    for b in ops:
        both(f'x{a}{b}y\n'); both(f'x {a} {b} y\n'); both(f'x{a}1{b}y\n')
print(st)
