import ast,sys
def norm(path):
    t=ast.parse(open(path).read())
    cls=[n for n in t.body if isinstance(n,ast.ClassDef)][0]
    out={}
    for n in cls.body:
        if isinstance(n,ast.FunctionDef):
            n.returns=None
            out[n.name]=ast.dump(ast.Module(body=n.body,type_ignores=[]))+'|'+ast.dump(ast.Module(body=[ast.Expr(d) for d in n.decorator_list],type_ignores=[]))
        elif isinstance(n,ast.Assign):
            out['='+n.targets[0].id]=ast.dump(n.value)
    return out
a=norm(sys.argv[1]); b=norm(sys.argv[2])
print(len(a),len(b), set(a)-set(b), set(b)-set(a))
d=[k for k in a if k in b and a[k]!=b[k]]
print('differing:',d[:20])
