from probe import *
import random, glob, io, collections, tokenize as pt, token as ptk
def seeds():
    out=[]
    for f in sorted(glob.glob('/repo/tests/data/*.py')):
        src=open(f).read()
        try: tree=ast.parse(src)
        except SyntaxError: continue
        lines=src.splitlines(True)
        for st in tree.body:
            seg=''.join(lines[st.lineno-1:st.end_lineno])
            if len(seg)<400: out.append(seg if seg.endswith('\n') else seg+'\n')
    return out
XONSH_LEX=['$','?','!','`','&&','||','@(']
def pylex_only(s):
    if any(x in s for x in XONSH_LEX): return False
    import re
    if re.search(r'''(?i)\b[rbuf]*p[rbuf]*['"]''', s): return False
    return True
def py_tokens(s):
    try: return [t for t in pt.generate_tokens(io.StringIO(s).readline)]
    except Exception: return None
def cpy_ok(s, mode='exec'):
    import warnings
    with warnings.catch_warnings():
        warnings.simplefilter('ignore')
        try: ast.parse(s, mode=mode); return True
        except SyntaxError: return False
        except (ValueError, MemoryError, RecursionError): return None
if __name__=='__main__':
    rnd=random.Random(int(sys.argv[1])); N=int(sys.argv[2])
    S=seeds(); print(len(S),'seeds')
    stats=collections.Counter(); shown=collections.Counter()
    VOC=['(',')','[',']','{','}',',',':','=','+','*','**','.','a','1','if','else','for','in','lambda','not','and','"s"','\n',';','->',':=','@','yield','await','async','def','class','return','import','from','as','with','try','except','finally','del','pass','None','...','-','~','<','==','is','or','%']
    for i in range(N):
        s=rnd.choice(S)
        toks=py_tokens(s)
        if not toks: continue
        k=rnd.random()
        if k<0.3:   # delete a token
            j=rnd.randrange(len(toks)); t=toks[j]
            lines=s.splitlines(True)
            if t.start[0]!=t.end[0] or t.start[0]>len(lines): continue
            l=lines[t.start[0]-1]; lines[t.start[0]-1]=l[:t.start[1]]+l[t.end[1]:]; m=''.join(lines)
        elif k<0.6: # insert token
            j=rnd.randrange(len(toks)); t=toks[j]; lines=s.splitlines(True)
            if t.start[0]>len(lines): continue
            l=lines[t.start[0]-1]; v=rnd.choice(VOC); lines[t.start[0]-1]=l[:t.start[1]]+v+' '+l[t.start[1]:]; m=''.join(lines)
        elif k<0.8: # prefix
            m=s[:rnd.randrange(len(s))]
        else: # replace token
            j=rnd.randrange(len(toks)); t=toks[j]; lines=s.splitlines(True)
            if t.start[0]!=t.end[0] or t.start[0]>len(lines): continue
            l=lines[t.start[0]-1]; lines[t.start[0]-1]=l[:t.start[1]]+rnd.choice(VOC)+l[t.end[1]:]; m=''.join(lines)
        if not pylex_only(m): continue
        c=cpy_ok(m)
        if c is None: continue
        k,v=guarded(parse,m,t=5)
        stats[(c,k)]+=1
        key=(c,k)
        bad = (k not in ('ok','SyntaxError','IndentationError','TokenError')) or (c is False and k=='ok') or (c is True and k!='ok')
        if bad and shown[key]<12:
            shown[key]+=1; print(key, repr(m), repr(v)[:120])
    print(stats)
