import sys, os, io, threading, time, builtins
sys.path.insert(0, os.environ.get('R','/repo'))
import peg_parser.tokenize as xt, peg_parser.subheader as sh, peg_parser.tokenizer as tkz
from peg_parser.parser import XonshParser
# 1. TokenizerState rebinding + livelock detection on the UNCHANGED repo
class Livelock(BaseException): pass
Orig=xt.TokenizerState
class Rec(Orig):
    instances=[]
    def __init__(self):
        super().__init__(); Rec.instances.append(self); self._seen=None; self._n=0
    def match(self, pattern):           # called once per loop iteration by next_psuedo_matches / end progs
        snap=(self.lnum,self.pos,self.max,self.parenlev,self.continued,tuple(self.indents),tuple((type(p.mode).__name__,p.text,p.start) for p in self.end_progs), str(pattern)[:20])
        self._n+=1
        if snap==self._seen: raise Livelock(snap)
        self._seen=snap
        return super().match(pattern)
xt.TokenizerState=Rec
try:
    list(xt.generate_tokens("x = 'a' €\n")); print('no livelock')
except Livelock as e: print('LIVELOCK detected after',Rec.instances[-1]._n,'match calls:',e.args[0][:4])
print('normal input ok:', len(list(xt.generate_tokens("x = f'{a}' + 1\n"))), 'tokens; state instances', len(Rec.instances))
# 2. Tokenizer rebinding in subheader -> parse_string picks monitored class
class MT(tkz.Tokenizer):
    made=[]
    def __init__(self,*a,**k): super().__init__(*a,**k); MT.made.append(self)
sh.Tokenizer=MT
XonshParser.parse_string('f!(a, b)\n',mode='exec')
t=MT.made[-1]; print('monitored tokenizer used:',len(MT.made),'flags',t._call_macro,t._with_macro,t._proc_macro,t._stack)
# 3. open spy
seen=[]
def spy(*a,**k):
    f=builtins.open(*a,**k); seen.append((str(a[0]),getattr(f,'encoding',None),k)); return f
sh.open=spy; tkz.open=spy
import pathlib,tempfile
d=tempfile.mkdtemp(); p=pathlib.Path(d)/'t.py'; p.write_text('x = (\n')
try: XonshParser.parse_file(p)
except BaseException as e: print('parse_file ->',type(e).__name__)
p.write_text('x = 1 1\n')
try: XonshParser.parse_file(p)
except BaseException as e: print('parse_file ->',type(e).__name__, e.text)
print('open spy saw',seen)
import shutil; shutil.rmtree(d)
# 4. yield injection with sys.monitoring LINE in threads
mon=sys.monitoring; TID=4; mon.use_tool_id(TID,'yield')
import types
switches=[0]; last=[None]; points=set()
def on_line(code,line):
    tid=threading.get_ident()
    if last[0] is not None and last[0]!=tid: switches[0]+=1; points.add((code.co_filename.rsplit('/',1)[-1],line))
    last[0]=tid
    time.sleep(0)
mon.register_callback(TID,mon.events.LINE,on_line)
def codes(mod):
    out=[]
    def rec(c):
        out.append(c)
        for k in c.co_consts:
            if isinstance(k,types.CodeType): rec(k)
    for v in vars(mod).values():
        if isinstance(v,types.FunctionType): rec(v.__code__)
        elif isinstance(v,type):
            for a in vars(v).values():
                f=getattr(a,'__func__',a)
                if isinstance(f,types.FunctionType):
                    rec(f.__code__); w=getattr(f,'__wrapped__',None)
                    if w: rec(w.__code__)
    return out
for m in (sh,tkz,xt):
    for c in codes(m): mon.set_local_events(TID,c,mon.events.LINE)
import ast
srcs=['x = $(ls -l)\n','def f(a):\n    return a + 1\n','with! c:\n    body\ny = p"/a"\n','a b\n']
def sig(s):
    try: return ast.dump(XonshParser.parse_string(s,mode='exec'),include_attributes=True)
    except SyntaxError as e: return ('SE',e.msg,e.lineno,e.offset)
xt.TokenizerState=Orig
base={s:sig(s) for s in srcs}; bad=[]
def worker(i):
    for j in range(15):
        s=srcs[(i+j)%len(srcs)]
        if sig(s)!=base[s]: bad.append(s)
t0=time.time(); ths=[threading.Thread(target=worker,args=(i,)) for i in range(4)]
[t.start() for t in ths]; [t.join() for t in ths]
print('yield injection: mismatches',len(bad),'thread switches observed',switches[0],'distinct switch points',len(points),'time',round(time.time()-t0,2))
