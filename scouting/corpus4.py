import ast, sys, os, time, collections, signal
from concurrent.futures import ProcessPoolExecutor
sys.path.insert(0, os.environ.get('R','/repo')); sys.setrecursionlimit(10000)
class TO(Exception): pass
def _alarm(*a): raise TO()
def work(f):
    from c import P
    from treediff import diffs, sig
    try: src=open(f,encoding='utf-8').read()
    except Exception as x: return f,'unreadable',[],0
    try: e=ast.parse(src)
    except Exception: return f,'cpyreject',[],0
    signal.signal(signal.SIGALRM,_alarm); signal.alarm(int(os.environ.get('TO','60')))
    t=time.time()
    try: o=P(src)
    except TO: return f,'TIMEOUT',[],time.time()-t
    except BaseException as x:
        signal.alarm(0); return f,'EXC:'+type(x).__name__+':'+str(x)[:150],[],time.time()-t
    signal.alarm(0)
    dt=time.time()-t
    ds=diffs(e,o,limit=2000)
    return f,'ok',[(sig(d),d) for d in ds],dt
if __name__=='__main__':
    root=sys.argv[1]; maxsize=int(sys.argv[2]) if len(sys.argv)>2 else 10**9
    files=[os.path.join(dp,f) for dp,dn,fn in os.walk(root) for f in fn if f.endswith('.py')]
    files=sorted(f for f in files if os.path.getsize(f)<maxsize)
    print(len(files), sum(map(os.path.getsize,files)),flush=True)
    agg=collections.Counter(); ex={}; st=collections.Counter(); slow=[]
    with ProcessPoolExecutor(16) as ex_:
        for f,status,ds,dt in ex_.map(work, files, chunksize=1):
            st[status.split(':')[0]]+=1
            if dt>5: slow.append((round(dt,1),os.path.getsize(f),f))
            if status!='ok' and status!='cpyreject': print(f,status,flush=True)
            for s,d in ds:
                agg[s]+=1; ex.setdefault(s,(f,d))
    print(st)
    print('SLOW',sorted(slow,reverse=True)[:30])
    for s,n in agg.most_common(): print(n,s,ex[s])
