from probe import *
import random, collections, copy
POOL=['x = 1\n','def f(a):\n    return a\n','if a:\n    b\nelse:\n    c\n','$X = 1\n','y = $(ls -l)\n','![echo hi]\n','f!(a, b)\n','with! ctx:\n    a = 1\n    b\n','with! ctx: a; b\n','x = p"/foo"\n','x = pf"/foo{y}"\n','range?\n','a && b\n','x = `*.py`\n','$(echo! raw text )\n','for i in $(seq 3):\n    print(i)\n','x = f"{a}"\n','x = f"{a:>{w}}"\n','x = """a\nb"""\n','@dec\nclass C:\n    x = 1\n','try:\n    pass\nexcept E as e:\n    pass\n','x = (1,\n     2)\n','# just a comment\n','\n','x = 1; y = 2\n','x = {"a": 1}\n','x = f"{a}" "b"\n','match x:\n    case 1:\n        pass\n','async def g():\n    await h()\n','x = $[ls]\n','${"a"} = 2\n','x = g`*`\n','lambda: $(ls)\n','with open(p"/x") as f:\n    pass\n','x = !(ls).out\n', 'x = a if $B else c\n','f!(x)\n']
def shift(tree,n):
    t=copy.deepcopy(tree)
    for node in ast.walk(t):
        if hasattr(node,'lineno') and node.lineno is not None: node.lineno+=n
        if getattr(node,'end_lineno',None) is not None: node.end_lineno+=n
    return t
rnd=random.Random(int(sys.argv[1])); st=collections.Counter()
single={}
for p in POOL:
    k,v=guarded(parse,p); single[p]=(k,v)
    if k!='ok': print('SINGLE FAIL',repr(p),k,str(v)[:80])
for i in range(int(sys.argv[2])):
    seq=[rnd.choice(POOL) for _ in range(rnd.randint(2,4))]
    if any(single[p][0]!='ok' for p in seq): st['skip']+=1; continue
    src=''.join(seq)
    k,v=guarded(parse,src)
    if k!='ok':
        st['reject']+=1
        if st['reject']<10: print('REJECT',repr(src),k,str(v)[:80])
        continue
    exp=[]; off=0
    for p in seq:
        exp+= [ast.dump(s,include_attributes=True) for s in shift(single[p][1],off).body]; off+=p.count('\n')
    got=[ast.dump(s,include_attributes=True) for s in v.body]
    if got==exp: st['ok']+=1
    else:
        st['diff']+=1
        if st['diff']<10:
            print('DIFF',repr(src))
            for a,b in zip(exp,got):
                if a!=b: print('   E',a[:300]); print('   G',b[:300]); break
print(st)
