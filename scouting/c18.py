from probe import *
import io, time
from peg_parser.tokenizer import Tokenizer
class CT(Tokenizer):
    def __init__(s,*a,**k): super().__init__(*a,**k); s.n=0
    def getnext(s): s.n+=1; return super().getnext()
    def peek(s): s.n+=1; return super().peek()
    def reset(s,i): s.n+=1; return super().reset(i)
def ops(src, mode='exec'):
    tk=CT(xt.generate_tokens(io.StringIO(src).readline))
    p=XonshParser(tk)
    t=time.time()
    try: p.parse('file' if mode=='exec' else 'eval'); r='ok'
    except SyntaxError as e: r='SE'
    except TO: r='TIMEOUT'
    except BaseException as e: r=type(e).__name__
    return r, tk.n, len(tk._tokens), round(time.time()-t,2)
fams={
 'paren': lambda n: '('*n+'1'+')'*n+'\n',
 'list': lambda n: '['*n+'1'+']'*n+'\n',
 'dict': lambda n: '{1:'*n+'1'+'}'*n+'\n',
 'call': lambda n: 'f('*n+'1'+')'*n+'\n',
 'lambda': lambda n: 'lambda:'*n+'1\n',
 'subproc': lambda n: '$(echo '*n+'x'+')'*n+'\n',
 'unclosed': lambda n: '('*n+'1'+')'*(n-1)+'\n',
 'badparen': lambda n: '('*n+'1 1'+')'*n+'\n',
 'chain': lambda n: '+'.join(['a']*n)+'\n',
 'cmp': lambda n: '<'.join(['a']*n)+'\n',
 'args': lambda n: 'f('+','.join(['a']*n)+')\n',
 'stmts': lambda n: 'a=1\n'*n,
 'ifs': lambda n: ''.join(' '*i+'if a:\n' for i in range(n))+' '*n+'pass\n',
 'tern': lambda n: 'a if b else '*n+'c\n',
 'sub': lambda n: 'a'+'[0]'*n+'\n',
 'attr': lambda n: 'a'+'.b'*n+'\n',
 'listcomp': lambda n: '['*n+'x'+' for x in y]'*n+'\n',
 'badassign': lambda n: '('*n+'a'+')'*n+' = = 1\n',
 'envnest': lambda n: '${'*n+'x'+'}'*n+'\n',
 'fstr': lambda n: "f'"+"{a}"*n+"'\n",
 'not': lambda n: 'not '*n+'a\n',
 'neg': lambda n: '-'*n+'a\n',
 'await': lambda n: 'await '*n+'a\n',
 'star': lambda n: '*'*1+'a'+', *a'*n+' = b\n',
 'tuple_t': lambda n: '('*n+'a,'+'),'*n+' = b\n',
}
import sys
sel=sys.argv[1:] or list(fams)
for name in sel:
    f=fams[name]
    row=[]
    for n in (2,4,6,8,10,12,16,24,32):
        signal.alarm(20)
        try: r=ops(f(n))
        except TO: r=('TIMEOUT',)
        finally: signal.alarm(0)
        row.append((n,)+r)
        if r[0]=='TIMEOUT' or (len(r)>3 and r[3]>8): break
    print(name, row, flush=True)
