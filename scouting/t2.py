from probe import *
for s in ["x = 'a' \x01\n", "x = 'a' €\n", "€\n", "x \\ y\n", "\\", "x\\\n", "x = 'a' \\ y\n", "x\x00y\n", "'abc\n", "f'{a'\n", "f'{a}{{'\n","f'{a'\nx\n", "x = 1 \x01\n", "x\ry\n", "x\r"]:
    k,v=guarded(toks,s)
    print(repr(s), k, v if k!='ok' else [ (a,b) for a,b,c,d in v])
    k,v=guarded(parse,s)
    print('    parse:', k, repr(v)[:150])
