from probe import *
from mut import seeds, py_tokens
import random, collections, tempfile, pathlib, os
def wf(e, src):
    """return list of problems with SyntaxError e for source src"""
    pr=[]
    lines=src.splitlines(True)
    nl=len(lines)
    if not e.msg: pr.append('nomsg')
    if not e.filename: pr.append('nofilename')
    if not isinstance(e.lineno,int) or not (1<=e.lineno<=nl+1): pr.append(f'lineno {e.lineno} of {nl}'); return pr
    line=lines[e.lineno-1] if e.lineno<=nl else ''
    if not isinstance(e.offset,int) or e.offset<1 or e.offset>len(line)+1: pr.append(f'offset {e.offset} line len {len(line)}')
    if e.end_lineno is None or e.end_offset is None: pr.append('noend')
    elif (e.end_lineno,e.end_offset)<(e.lineno,e.offset): pr.append(f'end before start {(e.lineno,e.offset)}>{(e.end_lineno,e.end_offset)}')
    if e.text is None or not e.text.startswith(line.rstrip('\r\n')) and not (line=='' and e.text==''): pr.append(f'text {e.text!r} vs line {line!r}')
    return pr
if __name__=='__main__':
    rnd=random.Random(int(sys.argv[1])); N=int(sys.argv[2]); S=seeds()
    st=collections.Counter(); shown=collections.Counter()
    tmp=pathlib.Path(tempfile.mkdtemp())/'t.py'
    for i in range(N):
        n=rnd.randint(1,3); s=''.join(rnd.choice(S) for _ in range(n))
        if rnd.random()<0.3: s=s.replace('\n','\n\n',1)
        j=rnd.randrange(len(s)); 
        k=rnd.random()
        if k<0.4: m=s[:j]+s[j+1:]
        elif k<0.7: m=s[:j]+rnd.choice(['(',')',',',':','=',' 1 ','"',"'",'\\','$','?','!','{','}','\n','  ','\t','if','*'])+s[j:]
        else: m=s[:j]
        kk,v=guarded(parse,m,t=5)
        # file
        tmp.write_text(m,encoding='utf8')
        kf,vf=guarded(XonshParser.parse_file,tmp,t=5)
        st['o:'+kk]+=1
        if isinstance(v,SyntaxError):
            pr=wf(v,m)
            if pr:
                key=pr[0].split()[0]; st['BAD:'+key]+=1; shown[key]+=1
                if shown[key]<=6: print('BAD',pr,repr(m)[:200],'|',v.msg, v.args[1][1:3] if len(v.args)>1 else v.args)
        elif kk not in('ok','TokenError'):
            st['EXC:'+kk]+=1; shown[kk]+=1
            if shown[kk]<=6: print('EXC',kk,str(v)[:80],repr(m)[:200])
        # compare file vs string
        def sig(k,v):
            if k=='ok': return ast.dump(v,include_attributes=True)
            if isinstance(v,SyntaxError): return (type(v).__name__,v.msg,v.lineno,v.offset,v.end_lineno,v.end_offset,v.text)
            return (k,str(v))
        if sig(kk,v)!=sig(kf,vf):
            st['FILE!=STR']+=1; shown['fs']+=1
            if shown['fs']<=8: print('FILE!=STR',repr(m)[:150],'\n    S:',repr(sig(kk,v))[:200],'\n    F:',repr(sig(kf,vf))[:200])
    print(st)
