from probe import *
def consts(t): return [n.value for n in ast.walk(t) if isinstance(n,ast.Constant) and isinstance(n.value,str)]
for s in ['x = "a" b"b"\n','f!(a, b)\n','f!(a,  b  )\n','f!(x, (1, 2), "a,b", [c, d])\n','f!(if x: pass)\n','f!(a)\ny = 1\n','f!(a) + g!(b)\n','x = f!(a); y = 2\n','f!(a\n, b)\n','f!("unterminated)\n','f!(a))\n','f!(]\n','f!(a,, b)\n','f!( )\n','f!(a # c\n)\n','g(f!(a, b), c)\n','f!(x)(y)\n','f!(x).z\n','f!(f!(x))\n',
 'with! x:\n    a = 1\n    b = 2\ny = 3\n','with! x:\n    if a:\n        b\n\n    c\nz\n','with! x: a; b\ny = 1\n','with! x:\n\ta\n\tb\n','with! x:\n    # c\n    a\n','if 1:\n    with! x:\n        a\n    y = 2\nz = 3\n','with! x:\n    a\n','with! x:\n    "s\n"\n',
 '$(echo! a b  c)\n','$(echo ! "x y" )\n','![cmd! ) ( ]\n','x = $(echo! a); y = 1\n', '$(echo! a\n b)\n','$(echo! a # b)\n']:
    k,v=guarded(parse,s,'exec')
    print(repr(s), k, (ast.unparse(v).replace('\n',' ⏎ ') if k=='ok' else str(v)[:100]))
