from probe import *
import threading, io, time
from c18 import CT, fams
import c18
sys.setrecursionlimit(200000)
threading.stack_size(1024*1024*1024)
def ops(src):
    tk=CT(xt.generate_tokens(io.StringIO(src).readline)); p=XonshParser(tk); t=time.time()
    try: p.parse('file'); r='ok'
    except SyntaxError: r='SE'
    except BaseException as e: r=type(e).__name__
    return r,tk.n,len(tk._tokens),round(time.time()-t,2)
res={}
def main():
    for name in ['paren','dict','lambda','listcomp','badassign','tuple_t','ifs','unclosed','badparen']:
        row=[]
        for n in (8,16,32,64,128):
            r=ops(fams[name](n)); row.append((n,)+r)
            if r[3]>20: break
        print(name,row,flush=True)
t=threading.Thread(target=main); t.start(); t.join()
