from probe import *
from mut import cpy_ok
import itertools, collections, warnings
VOC=['a','1','"s"','(',')','[',']','{','}',',',':','=','+','*','**','.','-','not','in','is','if','else','for','lambda','await','yield','async','def','class','return','import','from','as','del','pass','None','...',':=','@','->','match','case','type','_','print',';','<','==','!=','~','%','or','and','with','try','except','finally','while','global','raise','assert','+=','\n',' ']
import sys
L=int(sys.argv[1]); stats=collections.Counter(); shown=collections.Counter()
step=int(sys.argv[2]) if len(sys.argv)>2 else 1
n=0
for seq in itertools.product(VOC, repeat=L):
    n+=1
    if n%step: continue
    s=' '.join(seq)+'\n'
    for mode in ('exec','eval'):
        c=cpy_ok(s,mode)
        if c is None: continue
        k,v=guarded(parse,s,mode,t=5)
        agree = (c and k=='ok') or ((not c) and k in ('SyntaxError','IndentationError','TokenError'))
        stats[(mode,c,k)]+=1
        if not agree and shown[(mode,c,k)]<15:
            shown[(mode,c,k)]+=1; print((mode,c,k), repr(s), repr(v)[:100])
print(stats)
