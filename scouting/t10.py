from probe import *
k,v=guarded(parse,'$(echo @(a)@(b))','eval'); print(k, ast.unparse(v))
try: compile(v,'<x>','eval'); print('compiles')
except Exception as e: print('compile:',type(e).__name__,e)
for fam,mk in [('paren',lambda n:'('*n+'1'+')'*n+'\n'),('list',lambda n:'['*n+'1'+']'*n+'\n'),('call',lambda n:'f('*n+'1'+')'*n+'\n'),('unary',lambda n:'-'*n+'1\n'),('not',lambda n:'not '*n+'1\n'),('blocks',lambda n:''.join(' '*i+'if a:\n' for i in range(n))+' '*n+'pass\n')]:
    lo=None
    for n in range(5,400):
        k,v=guarded(parse,mk(n),t=20)
        if k!='ok': lo=(n,k); break
    try:
        ast.parse(mk(lo[0])); c='cpython ok'
    except Exception as e: c='cpython '+type(e).__name__
    print(fam,'first failure at depth',lo,c)
