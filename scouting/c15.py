from probe import *
from mut import seeds
import io, contextlib, collections, random
def run(s, mode, **kw):
    buf=io.StringIO()
    with contextlib.redirect_stdout(buf):
        k,v=guarded(parse,s,mode,t=20,**kw)
    if k=='ok': return ('ok',ast.dump(v,include_attributes=True))
    if isinstance(v,SyntaxError): return (type(v).__name__,v.msg,v.lineno,v.offset,v.end_lineno,v.end_offset,v.text)
    return (k,str(v))
S=seeds()+['$(ls -l)\n','f!(a, b)\n','with! x:\n    a\n','x = p"/a"\n','try:\n    pass\nexcept* E:\n    pass\n','type X = int\n','def f[T](a: T): pass\n','class C[T]: pass\n','x = (1 +\n','def f(:\n','a b\n','x = = 1\n','f(a for a in b, c)\n','match x:\n    case 1: pass\n']
rnd=random.Random(1); st=collections.Counter()
for s in rnd.sample(S,120)+S[-14:]:
    base=run(s,'exec')
    v=run(s,'exec',verbose=True)
    if v!=base: st['verbose-diff']+=1; print('VERBOSE DIFF',repr(s)[:100],'\n   ',repr(base)[:200],'\n   ',repr(v)[:200])
    else: st['verbose-same']+=1
    for pv in [(3,8),(3,9),(3,10),(3,11),(3,12),(3,13)]:
        r=run(s,'exec',py_version=pv)
        if r!=base:
            st[('pv-diff',pv)]+=1
            if st[('pv-diff',pv)]<4: print('PV',pv,repr(s)[:60],repr(r)[:160])
print(st)
