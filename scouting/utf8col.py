from probe import *
from treediff import diffs, sig
import collections
def to_char_cols(tree, src):
    """convert CPython byte col offsets to character offsets in place"""
    lines=src.splitlines(True)
    blines=[l.encode('utf8') for l in lines]
    for n in ast.walk(tree):
        for la,ca in (('lineno','col_offset'),('end_lineno','end_col_offset')):
            l=getattr(n,la,None); c=getattr(n,ca,None)
            if l is not None and c is not None and 1<=l<=len(lines):
                setattr(n,ca,len(blines[l-1][:c].decode('utf8',errors='replace')))
    return tree
agg=collections.Counter()
for f in ['/root/.pyenv/versions/3.12.1/lib/python3.12/idlelib/idle_test/test_hyperparser.py','/root/.pyenv/versions/3.12.1/lib/python3.12/test/test_capi/test_unicode.py','/root/.pyenv/versions/3.12.1/lib/python3.12/site-packages/pip/_vendor/webencodings/tests.py','/root/.pyenv/versions/3.12.1/lib/python3.12/test/test_sqlite3/test_hooks.py']:
    src=open(f,encoding='utf8').read()
    e=ast.parse(src); k,v=guarded(parse,src,t=60)
    d0=diffs(e,v,limit=100000)
    e2=to_char_cols(ast.parse(src),src)
    d1=diffs(e2,v,limit=100000)
    print(f.rsplit('/',1)[-1], k, len(d0),'->',len(d1), collections.Counter(sig(d) for d in d1).most_common(4))
