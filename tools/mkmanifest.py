#!/venv/bin/python
"""Regenerates MANIFEST.json from the table below (claimed checks = those with a module under xv/checks)."""
import json
import os

HERE = os.path.dirname(os.path.dirname(os.path.abspath(__file__)))
EXPL = "exploration"
CHECKS = {
    "C01": (EXPL, "differential oracle (CPython ast.parse) with exact tree comparator over corpus, recombined and layout-mutated programs", "4/C01",
            "Held on the sampled programs only. CPython's ast.parse of the running 3.12 interpreter is the reference; the comparator is type-exact on every field and position attribute.",
            "trusted: CPython ast.parse/unparse, the comparator, domain filter computed with CPython's tokenizer"),
    "C02": (EXPL, "accept/reject differential against CPython over enumerated token sequences, token mutants and prefixes", "4/C02",
            "Complete enumeration of short token sequences over a Python vocabulary plus sampled mutants/prefixes of real statements; only over-acceptance is a violation.",
            "trusted: CPython's verdict; domain filter (no xonsh lexemes) computed on the generated token list"),
    "C03": (EXPL, "outcome-class monitor + sys.monitoring logical clock (termination) under hostile inputs", "4/C03",
            "Every call is classified tree/SyntaxError/TokenError/other/None/budget; termination is decided on a deterministic step count, not on wall clock.",
            "trusted: sys.monitoring PY_START/JUMP events see every unbounded execution of pure-Python code"),
    "C04": (EXPL, "CPython compile() as AST validator + structural walk of every returned tree", "4/C04",
            "Held on the sampled accepted inputs (Python, xonsh constructs in target/expression positions).",
            "trusted: compile() validation of ast objects, ast.unparse for the written-out program"),
    "C05": (EXPL, "differential: parse(context[construct]) vs CPython on context[translation]; span monitor", "4/C05",
            "Contexts are harvested from real programs (every Load-position expression is a hole) plus hand-written ones.",
            "trusted: translation table taken from the repository's documentation/tests; CPython for the translated text"),
    "C06": (EXPL, "reference-model monitor: independent word splitter vs normal form of the returned Call", "4/C06",
            "Command lines are constructed from known pieces so the expected split is known by construction.",
            "trusted: the model of section 4/C06; normal-form flattening of gluing nodes"),
    "C07": (EXPL, "ground truth by construction for macro argument/body text (values and the text between their coordinates) + shift check of following statements", "4/C07",
            "Inputs are assembled from known argument texts/block lines; the constants in the returned nodes must equal them.",
            "trusted: the generator's own bracket/string-aware splitter (cross-checked against construction)"),
    "C08": (EXPL, "lossless-tiling monitor and line-structure monitor (NEWLINE/bracket/ENDMARKER placement) over token streams of hostile and real inputs", "4/C08",
            "Pure function of token list and text; run on every input the tokenizer finishes on.",
            "trusted: the tiling checker"),
    "C09": (EXPL, "differential token-stream oracle (CPython tokenize) over corpus and literal/operator/indent product", "4/C09",
            "Significant tokens compared as (type,string,start,end); documented differences normalised on both sides.",
            "trusted: CPython's tokenize module of the running interpreter"),
    "C10": (EXPL, "differential tokens+trees for f-strings against CPython 3.12 with per-mechanism finding attribution", "4/C10",
            "Product of prefixes/quotes/literal parts/fields/specs/nesting plus every f-string of the corpus.",
            "trusted: CPython 3.12.1 tokenizer/parser"),
    "C11": (EXPL, "well-formedness predicate monitor on every raised SyntaxError + reference-free rename relation (positions are character columns)", "4/C11",
            "Predicate is a pure function of exception attributes and input; run on all rejected inputs of the hostile generators.",
            "trusted: the predicate; line splitting as the tokenizer's readline does"),
    "C12": (EXPL, "relational monitor file-vs-string (regular file, rewritten path, named pipe) in child interpreters under several locale/UTF-8-mode environments + open() spy", "4/C12",
            "Latin-1 locale does not exist in the image; covered only through the encoding recorded by the spy.",
            "trusted: child interpreter environment set-up; the spy sees the file object handed to the code"),
    "C13": (EXPL, "history/thread-schedule monitor against fresh-process reference signatures, fresh interpreters under other string-hash seeds; aliasing and quiescence invariants at hooks", "4/C13",
            "Schedules are stressed (switch interval, yield injection via sys.monitoring LINE events), not enumerated.",
            "trusted: fresh-process references; GIL switch stress reaches the interleavings that matter"),
    "C14": (EXPL, "whole-vs-parts relational oracle over statement sequences", "4/C14",
            "parse(A+B).body must equal parse(A).body ++ shift(parse(B).body).",
            "trusted: line shifting of dumps"),
    "C15": (EXPL, "option-grid relational monitor (verbose x py_version x mode)", "4/C15",
            "Outcome signatures compared across the grid; version need computed from CPython's tree.",
            "trusted: CPython tree for the gated-node classification"),
    "C16": ("translation_validation", "regenerate with the documented commands and compare normalised per-method ASTs; byte equality across PYTHONHASHSEED", "4/C16",
            "Complete over the two shipped (grammar, module) pairs and all their rule methods; hash seeds sampled.",
            "trusted: ast.parse/ast.dump as normaliser; audit hook for stray writes"),
    "C17": ("translation_validation", "generated parser vs independent PEG interpreter on random well-formed grammars x token strings", "4/C17",
            "Per grammar: generated module run on all short token strings + derived strings, compared with reference semantics.",
            "trusted: the reference interpreter (written from the PEG definition, cross-checked by a left-fold oracle)"),
    "C18": (EXPL, "operation-count monitor (counting Tokenizer subclass), CPU-time monitor and file-read monitor + doubling-ratio oracle over size-parameterised families", "4/C18",
            "Scale-free ratio test on token-source operations; logical clock recorded as second measure.",
            "trusted: counting subclass passed through the public constructor"),
}
NOT_APPLICABLE = {}

checks = []
na = []
for pid, (cat, tech, ref, text, note) in CHECKS.items():
    if os.path.exists(os.path.join(HERE, "xv", "checks", pid.lower() + ".py")) and pid not in NOT_APPLICABLE:
        checks.append({
            "property_id": pid,
            "quick_cmd": f"./check {pid} --tier quick",
            "thorough_cmd": f"./check {pid} --tier thorough",
            "evidence_file": f"evidence/{pid}.json",
            "replay_cmd_template": f"./check {pid} --replay {{path}}",
            "engine": "xv",
            "level_claimed": {"category": cat, "text": text, "design_ref": "DESIGN.md section " + ref},
            "level_note": note,
            "technique": "runtime monitoring: " + tech,
        })
    else:
        na.append({"property_id": pid, "reason": NOT_APPLICABLE.get(pid, "check not built yet (work in progress); planned per DESIGN.md section " + ref)})

manifest = {
    "version": 1,
    "setup_cmd": "/venv/bin/python -c \"import sys; assert sys.version_info[:2]==(3,12) and hasattr(sys,'monitoring')\" && mkdir -p evidence replays",
    "hooks": {
        "guard": "XONSH_PARSER_VERIF",
        "enable": "no source hooks: every monitor is attached from the worker process after importing the working tree (subclassing/rebinding/sys.monitoring); the guard name is reserved and unused",
        "baseline_off_cmd": "cd /repo && /venv/bin/python -m pytest -ra -q -p no:cacheprovider --timeout=900 --continue-on-collection-errors",
        "source_commits": [],
        "add_only": True,
    },
    "engines": [{"name": "xv", "path": "xv/", "serves_properties": [c["property_id"] for c in checks],
                 "kind_free_text": "pure-Python runtime-monitoring harness: subprocess worker pool, guarded calls, differential/reference-model/relational oracles, sys.monitoring logical clock and coverage, known-finding attribution"}],
    "checks": checks,
    "not_applicable": na,
    "notes": "All checks: ./check <ID> --tier quick|thorough; honour VERIF_SEED, VERIF_REPO, VERIF_JOBS. Exit 0 held / 1 VIOLATION / 2 INCONCLUSIVE. known_findings.json lists genuine defects (open = still present, printed as KNOWN-FINDING; fixed = repaired by a fix: commit in /repo).",
}
with open(os.path.join(HERE, "MANIFEST.json"), "w") as f:
    json.dump(manifest, f, indent=1)
    f.write("\n")
print("claimed:", [c["property_id"] for c in checks])
