#!/bin/sh
# usage: tools/mutant.sh <patch.diff> <check ids...>   -- applies the patch to a scratch copy of /repo HEAD (never to /repo),
# runs the repository's test-suite there, then the given checks (quick tier) with VERIF_REPO pointing at the copy.
set -u
PATCH=$(readlink -f "$1"); shift
D=$(mktemp -d /tmp/xv_mut_XXXXXX)
trap 'rm -rf "$D"' EXIT
git -C /repo archive HEAD | tar -x -C "$D"
( cd "$D" && patch -p1 -s < "$PATCH" ) || { echo "PATCH DOES NOT APPLY"; exit 3; }
( cd "$D" && /venv/bin/python -m pytest -q -p no:cacheprovider -x 2>&1 | tail -1 )
for c in "$@"; do
  out=$(cd /verif && VERIF_REPO="$D" VERIF_EVIDENCE_DIR="$D" ./check "$c" 2>&1)
  rc=$?
  echo "== $c exit=$rc: $(echo "$out" | head -1)"
  echo "$out" | grep -A2 "^VIOLATION\|^INCONCLUSIVE" | head -9 | cut -c1-300
done
