#!/bin/sh
# own mutant sweep for C18: remove the memoisation of each (memo) rule in a scratch copy and see whether C18 (quick) reports it
for rule in $(grep -o "^[a-z_]*\(\[[^]]*\]\)\? (memo)" /repo/tasks/xonsh.gram | sed 's/[[ ].*//'); do
  D=$(mktemp -d /tmp/xv_memo_XXXXXX)
  git -C /repo archive HEAD | tar -x -C "$D"
  /venv/bin/python - "$D" "$rule" <<'PY'
import re, sys
d, rule = sys.argv[1:3]
p = d + "/peg_parser/parser.py"; s = open(p).read()
new, n = re.subn(r"    @memoize\n(    def %s\(self\))" % re.escape(rule), r"\1", s)
assert n == 1, (rule, n)
open(p, "w").write(new)
g = d + "/tasks/xonsh.gram"; t = open(g).read()
t2, m = re.subn(r"(?m)^(%s(?:\[[^\]]*\])?) \(memo\):" % re.escape(rule), r"\1:", t)
assert m == 1, (rule, m)
open(g, "w").write(t2)
PY
  suite=$(cd "$D" && /venv/bin/python -m pytest -q -p no:cacheprovider -x 2>&1 | tail -1 | cut -c1-40)
  out=$(cd /verif && VERIF_REPO="$D" VERIF_EVIDENCE_DIR="$D" ./check C18 2>&1); rc=$?
  echo "memo removed from $rule: suite [$suite] C18 exit=$rc $(echo "$out" | grep -c '^VIOLATION') violations; families: $(echo "$out" | grep -o '"family": "[a-z_]*", "variant": "[a-z_]*"' | sort -u | head -5 | tr '\n' ' ')"
  rm -rf "$D"
done
