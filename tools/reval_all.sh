#!/bin/sh
# usage: tools/reval_all.sh > log : re-runs every stored seeded change (tools/mutant.sh) against the checks its meta.json names as catching it
cd /verif
for d in seeded/*/; do
  id=$(basename $d)
  if grep -q '"obsolete"' $d/meta.json; then echo "#### $id: no longer applicable (see meta.json)"; continue; fi
  checks=$(python3 -c "import json;print(' '.join(json.load(open('$d/meta.json'))['validated_by_me']['caught_by']))")
  echo "#### $id [$checks]"
  tools/mutant.sh $d/patch.diff $checks 2>&1 | grep "^==\|passed\|failed\|APPLY" | cut -c1-160
done
echo ALLDONE
