#!/bin/sh
# usage: tools/validate_seed.sh <ID> <worktree> <checks...> : validates a sub-agent's deliverable and runs our checks against it
ID=$1; WT=$2; shift 2
S=$WT/_seeded
[ -f $S/patch.diff ] || { echo "no patch"; exit 3; }
D=$(mktemp -d /tmp/xv_val_XXXXXX); trap 'rm -rf "$D"' EXIT
git -C /repo archive HEAD | tar -x -C "$D"
(cd "$D" && patch -p1 -s < $S/patch.diff) || { echo "PATCH DOES NOT APPLY"; exit 3; }
echo "suite with change: $(cd "$D" && /venv/bin/python -m pytest -q -p no:cacheprovider 2>&1 | tail -1)"
timeout 600 /venv/bin/python $S/demo.py "$D" >/dev/null 2>&1; echo "demo with change: exit $?"
timeout 600 /venv/bin/python $S/demo.py /repo >/dev/null 2>&1; echo "demo on /repo: exit $?"
for c in "$@"; do
  out=$(cd /verif && VERIF_REPO="$D" VERIF_EVIDENCE_DIR="$D" ./check "$c" 2>&1); rc=$?
  echo "== $c exit=$rc: $(echo "$out" | head -1)"
  echo "$out" | grep -A2 "^VIOLATION\|^INCONCLUSIVE" | head -6 | cut -c1-260
done
