#!/venv/bin/python
"""Rewrites the two tables of DESIGN.md section 6 from known_findings.json (between marker comments)."""
import json, os
HERE = os.path.dirname(os.path.dirname(os.path.abspath(__file__)))
d = json.load(open(os.path.join(HERE, "known_findings.json")))
esc = lambda s: "".join(ch if ch >= " " or ch == "\t" else f"\\x{ord(ch):02x}" for ch in str(s).replace("|", "\\|").replace("\r\n", "␍⏎").replace("\n", "⏎").replace("\r", "␍"))
fixed = ["| id | properties | witness | mechanism | commit(s) |", "|---|---|---|---|---|"]
opened = ["| id | properties | witness | mechanism | why not repaired |", "|---|---|---|---|---|"]
for e in d["findings"]:
    if e["status"] == "fixed":
        fixed.append(f"| {e['id']} | {', '.join(e['properties'])} | `{esc(e['witness'])[:70]}` | {esc(e['mechanism'])} | {e.get('commit', '')} |")
    else:
        opened.append(f"| {e['id']} | {', '.join(e['properties'])} | `{esc(e['witness'])[:60]}` | {esc(e['mechanism'])} | {esc(e.get('why_not_fixed', ''))} |")
p = os.path.join(HERE, "DESIGN.md")
s = open(p).read()
for name, rows in (("fixed", fixed), ("open", opened)):
    B, E = f"<!-- findings-{name}-begin -->", f"<!-- findings-{name}-end -->"
    block = B + "\n" + "\n".join(rows) + "\n" + E
    if B in s:
        s = s[: s.index(B)] + block + s[s.index(E) + len(E):]
    else:
        raise SystemExit(f"marker {B} missing in DESIGN.md")
open(p, "w").write(s)
print(len(fixed) - 2, "fixed,", len(opened) - 2, "open")
