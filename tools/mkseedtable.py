#!/venv/bin/python
"""Rewrites the table of section 9 of DESIGN.md from seeded/*/meta.json (between the two marker lines)."""
import glob, json, os
HERE = os.path.dirname(os.path.dirname(os.path.abspath(__file__)))
rows = ["| seeded change | property | what was changed | what it needs to manifest | caught by | note |", "|---|---|---|---|---|---|"]
for d in sorted(glob.glob(os.path.join(HERE, "seeded", "*"))):
    try:
        m = json.load(open(os.path.join(d, "meta.json")))
    except Exception:
        continue
    v = m.get("validated_by_me", {})
    esc = lambda s: str(s).replace("|", "\\|").replace("\n", " ")
    rows.append(f"| `{os.path.basename(d)}` | {esc(m.get('property', ''))} | {esc(m.get('summary', ''))[:260]} | {esc(m.get('needs', ''))[:260]} | {', '.join(v.get('caught_by', [])) or 'NOT CAUGHT'} | {esc(v.get('note', '') + ('; PATCH REBASED: ' + v['rebased'] if v.get('rebased') else '') + ('; NO LONGER APPLICABLE: ' + v['obsolete'] if v.get('obsolete') else ''))} |")
p = os.path.join(HERE, "DESIGN.md")
s = open(p).read()
B, E = "<!-- seeded-table-begin -->", "<!-- seeded-table-end -->"
block = B + "\n" + "\n".join(rows) + "\n" + E
if B in s:
    s = s[: s.index(B)] + block + s[s.index(E) + len(E):]
else:
    s = s.rstrip("\n") + "\n\n" + block + "\n"
open(p, "w").write(s)
print(len(rows) - 2, "seeded changes listed")
