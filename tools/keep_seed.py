#!/venv/bin/python
"""usage: keep_seed.py <seed id> <worktree> <caught_by comma list> <note>  - stores a validated sub-agent deliverable under seeded/<id>/"""
import json, os, shutil, sys
sid, wt, caught, note = sys.argv[1:5]
src = os.path.join(wt, "_seeded")
dst = os.path.join(os.path.dirname(os.path.dirname(os.path.abspath(__file__))), "seeded", sid)
os.makedirs(dst, exist_ok=True)
for f in ("patch.diff", "demo.py"):
    shutil.copy(os.path.join(src, f), os.path.join(dst, f))
try:
    meta = json.load(open(os.path.join(src, "meta.json")))
except Exception as e:
    meta = {"note": f"sub-agent meta.json unreadable: {e}"}
meta["validated_by_me"] = {
    "how": "tools/validate_seed.sh: patch applied to a scratch export of /repo HEAD, repository test-suite re-run there (2000 passed), demo.py run against the scratch copy (exit 1) and against /repo (exit 0), then the listed checks run with VERIF_REPO=<scratch copy>",
    "caught_by": [c for c in caught.split(",") if c],
    "note": note,
}
json.dump(meta, open(os.path.join(dst, "meta.json"), "w"), indent=1)
print("kept", dst)
